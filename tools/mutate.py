#!/venv/bin/python
"""Mutation-sensitivity runs: apply each textual mutant of mutants/<Cnn>.py to a scratch copy of
/repo/src (outside /repo and /verif, removed afterwards) and run the property's check against it.

usage: tools/mutate.py Cnn [--tier quick] [--only name-substring] [--jobs N]
A mutants file defines MUTANTS = [(name, relpath under src/mpservice, old, new[, count])].
Prints a kill matrix; exit 0 always (this is a self-test of the monitors, not a check)."""
import argparse, importlib.util, json, os, shutil, subprocess, sys, tempfile, time
from concurrent.futures import ThreadPoolExecutor

HERE = os.path.dirname(os.path.dirname(os.path.abspath(__file__)))
REPO = os.environ.get('VERIF_REPO', '/repo')


def load(prop):
    path = os.path.join(HERE, 'mutants', f'{prop.lower()}.py')
    spec = importlib.util.spec_from_file_location('m', path)
    m = importlib.util.module_from_spec(spec)
    spec.loader.exec_module(m)
    return m.MUTANTS


def run_one(prop, tier, mut, seed):
    name, rel, old, new = mut[:4]
    count = mut[4] if len(mut) > 4 else 1
    d = tempfile.mkdtemp(prefix='vf-mut-')
    try:
        shutil.copytree(os.path.join(REPO, 'src'), os.path.join(d, 'src'))
        p = os.path.join(d, 'src', 'mpservice', rel)
        s = open(p).read()
        if s.count(old) < 1 or (count and s.count(old) != count):
            return name, 'NOT-APPLICABLE', f'pattern occurs {s.count(old)} times (expected {count})', 0
        s = s.replace(old, new)
        open(p, 'w').write(s)
        r = subprocess.run([sys.executable, '-m', 'py_compile', p], capture_output=True, text=True)
        if r.returncode:
            return name, 'DOES-NOT-COMPILE', r.stderr[-300:], 0
        env = dict(os.environ, VERIF_REPO=d, VERIF_EVIDENCE_DIR=os.path.join(d, 'evidence'), VERIF_SEED=str(seed))
        t0 = time.time()
        r = subprocess.run([os.path.join(HERE, 'check'), prop, '--tier', tier], env=env, capture_output=True, text=True, timeout=3600)
        dt = time.time() - t0
        mechs = sorted({l.split('mechanism=')[1].split(' ')[0] for l in r.stdout.splitlines() if 'mechanism=' in l})
        verdict = {0: 'SURVIVED', 1: 'KILLED', 2: 'INCONCLUSIVE'}.get(r.returncode, f'rc={r.returncode}')
        if r.returncode == 1 and 'VIOLATION property=' not in r.stdout:
            verdict = 'CRASH'
            mechs = [(r.stdout[-300:] + r.stderr[-900:])]
        tail = ''
        if r.returncode not in (0, 1):
            tail = (r.stdout[-600:] + r.stderr[-600:])
        return name, verdict, ','.join(mechs) + tail, dt
    finally:
        shutil.rmtree(d, ignore_errors=True)


def main():
    ap = argparse.ArgumentParser()
    ap.add_argument('prop')
    ap.add_argument('--tier', default='quick')
    ap.add_argument('--only', default=None)
    ap.add_argument('--jobs', type=int, default=1)
    ap.add_argument('--seed', type=int, default=0)
    a = ap.parse_args()
    muts = load(a.prop)
    if a.only:
        muts = [m for m in muts if a.only in m[0]]
    with ThreadPoolExecutor(a.jobs) as ex:
        res = list(ex.map(lambda m: run_one(a.prop.upper(), a.tier, m, a.seed), muts))
    for name, verdict, info, dt in res:
        print(f'{a.prop.upper()} {name:45s} {verdict:16s} {dt:6.1f}s {info}')
    print(f'killed {sum(1 for r in res if r[1]=="KILLED")}/{len(res)}')


if __name__ == '__main__':
    main()
