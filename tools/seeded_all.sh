#!/bin/sh
# Regression over all kept seeded changes: every change must be caught by its property's quick check.
cd "$(dirname "$0")/.."
for d in seeded/*/; do
  id=$(basename $d)
  printf "%s " "$id"
  tools/seeded.py $d 2>&1 | tail -1
done
