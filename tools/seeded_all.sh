#!/bin/sh
# Regression over all kept seeded changes: every change must be caught by its property's quick check.
# A change whose meta.json carries "superseded" (a later repair removed the code it alters) is skipped.
cd "$(dirname "$0")/.."
for d in seeded/*/; do
  id=$(basename $d)
  if grep -q '"superseded"' $d/meta.json 2>/dev/null; then echo "$id SKIPPED (superseded, see meta.json)"; continue; fi
  printf "%s " "$id"
  tools/seeded.py $d 2>&1 | tail -1
done
