#!/usr/bin/env python3
"""Regenerates MANIFEST.json from the table below (keeps it schema-valid at all times)."""
import json, os, subprocess
HERE = os.path.dirname(os.path.dirname(os.path.abspath(__file__)))

CHECKS = {
 'C19': dict(
    category='exploration', design_ref='4/C19, 3.6',
    technique='runtime monitor in virtual time: real EagerBatcher.__iter__ on a scripted queue + virtual clock, oracle over the recorded get/emit timeline',
    text='The real EagerBatcher runs over 20 000 (quick) / 600 000 (thorough) seeded arrival scripts on a virtual clock; partition, over-wait, early-release, late-release and waits-forever rules are evaluated on the recorded timeline, plus real-thread runs for the partition clause. Held-on-observed, not a proof; all 8 seeded timing/partition mutants are killed.',
    note='Trusted: the virtual queue/clock faithfully model queue.Queue.get(timeout) + perf_counter; ties within 1e-9 virtual seconds are excluded.'),
}

NOT_YET = {}

ALL = [f'C{i:02d}' for i in range(1, 21)]

def main():
    checks = []
    for pid in ALL:
        if pid not in CHECKS:
            continue
        c = CHECKS[pid]
        checks.append({
            'property_id': pid,
            'quick_cmd': f'./check {pid} --tier quick',
            'thorough_cmd': f'./check {pid} --tier thorough',
            'evidence_file': f'evidence/{pid}.json',
            'replay_cmd_template': f'./check {pid} --replay {{path}}',
            'engine': c.get('engine', 'vlib.runner'),
            'level_claimed': {'category': c['category'], 'text': c['text'], 'design_ref': c['design_ref']},
            'level_note': c['note'],
            'technique': c['technique'],
        })
    na = [{'property_id': p, 'reason': NOT_YET.get(p, 'check not registered yet: machinery for this property is still being built (see DESIGN.md section 4); nothing is claimed for it')}
          for p in ALL if p not in CHECKS]
    hooks_commits = []
    m = {
        'version': 1,
        'setup_cmd': './setup.sh',
        'hooks': {
            'guard': 'MPSERVICE_VERIF',
            'enable': 'no source hooks: every probe is attached from /verif at run time (sys.monitoring local events, monkey-patched module globals, swapped containers); checks import /repo/src directly via PYTHONPATH',
            'baseline_off_cmd': 'cd /repo && /venv/bin/python -m pytest -ra -q -p no:cacheprovider --timeout=900 --continue-on-collection-errors',
            'source_commits': hooks_commits,
            'add_only': True,
        },
        'engines': [
            {'name': 'runner', 'path': 'vlib/runner.py', 'serves_properties': ALL, 'kind_free_text': 'case scheduling over runner subprocesses, per-case watchdog with stack-stability hang rule, verdict folding (violated / held / inconclusive), evidence + replay writer, known-findings matching by mechanism key'},
            {'name': 'schedfuzz', 'path': 'vlib/schedfuzz.py', 'serves_properties': ['C01','C02','C04','C05','C06','C07','C08','C09','C10','C11','C16','C17'], 'kind_free_text': 'sys.monitoring LINE-event schedule fuzzer (seeded delay injection at statement boundaries of chosen code objects, targeted sites by source pattern)'},
            {'name': 'vtime', 'path': 'vlib/vtime.py', 'serves_properties': ['C09','C19'], 'kind_free_text': 'virtual clock + scripted queue for exact timing oracles on the real batching functions'},
            {'name': 'watch', 'path': 'vlib/watch.py', 'serves_properties': ALL, 'kind_free_text': 'bounded-progress rule (bound + 3 stable stack samples), thread-death recorder, resource census (threads, children, /dev/shm)'},
        ],
        'checks': checks,
        'not_applicable': na,
        'notes': 'All checks are runtime monitors over real executions of /repo/src (PYTHONPATH), see DESIGN.md. Exit codes: 0 held on everything observed, 1 violation (VIOLATION line + replay file), 2 inconclusive (deciding monitor observed nothing / watchdog while still progressing).',
    }
    json.dump(m, open(os.path.join(HERE, 'MANIFEST.json'), 'w'), indent=1)
    print('MANIFEST.json:', len(checks), 'checks,', len(na), 'not claimed')

if __name__ == '__main__':
    main()
