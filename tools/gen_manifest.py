#!/usr/bin/env python3
"""Regenerates MANIFEST.json from the table below (keeps it schema-valid at all times)."""
import json, os, subprocess
HERE = os.path.dirname(os.path.dirname(os.path.abspath(__file__)))

CHECKS = {
 'C13': dict(
    category='exploration', design_ref='4/C13',
    technique='reference-count model checked against the live server state (debug_info ids/refcounts, /dev/shm) after every step of seeded cross-process histories, behind a quiescence protocol',
    text='36 (quick) / 600 (thorough) histories of 10-60 steps over create / copy / pickle-and-hold / unpickle-once in any of three client processes / nest in hosted list, dict, Box / un-nest / fetch nested / managed_*() returns / delete / child process via argument and via queue / agent exit with live proxies / shared-memory write-read, with the model count (live proxies + proxies held by hosted containers + pickles in transit) compared with the server after every step; liveness probes on live proxies.',
    note='Trusted: the model in checks/c13.py; comparisons only after gc in every client + one no-op call per connection (up to 4 s of retries; measured: first try always suffices).'),
 'C14': dict(
    category='exploration', design_ref='4/C14',
    technique='differential runtime oracle: the same seeded operation sequence applied through proxies (several copies, threads, agent processes) and to a local object of the hosted class, compared step by step incl. raised (type, args); remote-traceback and connection-liveness probes after each raising call; managed_*() values read back inside the server',
    text='40 (quick) / 600 (thorough) sequences of 60-300 operations on hosted list, dict, Namespace, Value and a custom class through proxies in the harness and 1-2 agent processes, about a quarter raising; managed_list/dict values mutated through the returned proxy from every process and read back server-side; concurrent phases with 2-4 threads plus agents on commutative / key-partitioned operations.',
    note='Trusted: client-side signature errors of typed proxies are not counted as method exceptions; exceptions compared by (type name, args).'),
 'C15': dict(
    category='exploration', design_ref='4/C15',
    technique='runtime oracle over hop chains: original (type, args, formatted traceback) recorded at the raise site, compared after every RemoteException wrap + pickle hop; forwarded-only hops must keep the text identical; sampled through real Process pipes',
    text='33 picklable exception classes (special constructors, errno subclasses, custom __init__/__reduce__/keyword-only, attributes, nested exception args, BaseExceptions) x depth 1-40 x 1-6 hops x {forward, re-raise, alternate, seeded} in memory (1 584 chains quick), EnsembleError with mixed members, and chains of 1-3 spawned processes that re-raise what came through the pipe.',
    note='Trusted: the picklability precondition is tested on the bare exception; not-applicable cases are counted, not judged.'),
 'C18': dict(
    category='exploration', design_ref='4/C18',
    technique='history with unique request tags + content digests computed independently on both sides; adversarial id() for request ids; delay injection in the client send/receive coroutines; scripted bidirectional pipe exchanges between processes',
    text='One socket server process per case; client with 1-4 connections, 1-8 requester threads, payloads from empty / newline / header-look-alike bytes, falsy non-None values, unicode, 64 KiB +/- 1, 1-8 MB, nested objects; handler latency reorders responses across connections; each response must carry the request own tag and digest, failing handlers must raise KeyError(tag) with the remote traceback; stream order; the data-less route. Named pipes: 8 (quick) scripted exchanges with objects from 0 B to 1 MB both ways.',
    note='Trusted: sha256 digests; a 60 s response timeout with stable stacks is a lost response.'),
 'C17': dict(
    category='exploration', design_ref='4/C17, 3.2',
    technique='schedule fuzzer on every statement of IterableQueue.__next__/put_end/renew with a targeted site between `_used_lids.put` and the `full()` test; per-round multiset oracle on unique items; qsize()==0 after renew; bounded-progress watchdog; stop-request latency monitor',
    text='260 (quick) / 6000 (thorough) multi-round runs with 1-4 supplier and 1-4 consumer threads on one queue (bound 0-3), 2-5 rounds separated by renew() behind a barrier, incl. falsy items; every item put before put_end is received exactly once in its round, no end marker is yielded, every consumer finishes, qsize()==0 right after renew; spawned-process variant sampled; blocked get/put raise StopRequested after a stop event (latency reported).',
    note='Trusted: hang rule = 20 s + 5 s per round AND stable stacks; stop requests must take effect within 10 s (wait interval 1 s).'),
 'C12': dict(
    category='fault_enumeration', design_ref='4/C12',
    technique='fault enumeration (kind x ending x value/exception class x first accessor x kill signal x kill phase) with a consistency-table oracle over all seven accessors, each call under the bounded-progress watchdog; targeted delay on the first line of Thread.run',
    text='Thread and Process targets end by returning 7 value classes (incl. 1 MB), raising 16 exception classes (multi-argument, keyword-only, custom __reduce__, BaseException), sys.exit(None|0|1|3|"bye"), terminate(), or (process) being killed by TERM/KILL/SEGV/ABRT/INT before the target, during it, or after the result was sent; the first accessor is called right after start(). join/result/exception/done/exitcode/wait/as_completed must all return within the bound and agree per the table; exceptions keep type, args and the raising line in the traceback text.',
    note='Trusted: the consistency table of DESIGN C12 (SIGTERM = terminate(); kill after the result was sent keeps the result); expected exception type/args are what constructing the exception gives in this interpreter.'),
 'C20': dict(
    category='fault_enumeration', design_ref='4/C20',
    technique='fault enumeration (record count x size x ending x timing of last record x parent level x carrier) with a sequence-number oracle at the parent root handler and the bounded-progress watchdog on join/result/exit',
    text='Children started through mpservice Process (directly, as ProcessServlet workers logging in cleanup, as ProcessPoolExecutor tasks) emit 0 to 20 000 numbered records of 10 B to 70 kB, also from 4 threads, and end by return / raise / sys.exit with the last record immediately before the end; the parent handler must see exactly the emitted sequence filtered by its level, once, in order, and result()/server exit/pool shutdown must return.',
    note='Trusted: after join() the check waits up to 10 s for the count or until the per-process logger thread has ended.'),
 'C11': dict(
    category='fault_enumeration', design_ref='4/C11, 3.1, 3.5',
    technique='fault enumeration over (tree, failing leaf, failing worker index) and (tree, prior workload, enter/exit cycle) with bounded-progress watchdog (bound + stable stacks) and thread/child-process census against a baseline; second-order history (failed enter -> new server) under swept GC thresholds',
    text='17 servlet trees (thread/process leaves, sequential, ensemble, switch, nested): every (leaf, worker) position fails to initialise -> __enter__ must raise that worker own InitBoom(tag, index), the census must return to the baseline, and a new server entered afterwards in the same process must work; every tree x {none, ok, failures, timeouts, abandoned stream with 50-400 pending 0.1-4 kB requests, 300 x 200 kB through process stages} x 3 enter/exit cycles of the same object: exit within the bound, census clean, backlog 0, re-entry answers correctly. Quick samples the process trees; thorough runs all.',
    note='Trusted: hang rule = 60 s AND three identical stack samples; leak = child process / non-daemon thread / mpservice Thread alive 6 s after return; QueueFeederThread daemons reported only.'),
 'C02': dict(
    category='exploration', design_ref='4/C02, 3.2, 3.4, 3.5, 3.7',
    technique='history + executable model: every request is a unique tagged token, every outcome is matched against a reference interpreter of the servlet tree; ledger shadow inside the server critical section; adversarial-but-legal id() allocator; schedule fuzzer (incl. in child workers)',
    text='Server / AsyncServer lifetimes over servlet trees drawn from a grammar (thread/process leaves with 1-3 workers, batching, in-worker pools, Sequential, Ensemble fail_fast +/-, Switch), 1-6 concurrent callers mixing call and stream, failures / rejections / poisoned batches / short deadlines, five id() reuse policies and a dedicated fail-fast-ensemble id-recycling scenario. Each outcome must be the reference meaning of the request own token (co-batched failures allowed only when the batch names a real poisoner); stream order; no ledger miss or id collision.',
    note='Trusted: the reference interpreter (vlib/srvharness.py); TimeoutError legal only for deadlines <= 0.25 s.'),
 'C04': dict(
    category='fault_enumeration', design_ref='4/C04',
    technique='fault enumeration over (shape, failure site, failing positions, callers) with reference-model oracle, failure-site marker search in object / remote tracebacks, and batch membership taken from the instrumented call log',
    text='All fault plans over 17 servlet shapes (thread/process, batched, 3-stage sequential across process boundaries, ensembles fail_fast +/- incl. every member subset) x {preprocess, call, poisoned batch} x {first,last,pair,every 3rd,all,none} x {1,5 callers} (quick: all thread-only plans sampled to 260 + 36 process plans; thorough: all). Innocent requests must get their correct result; failing ones the original type/args and a traceback naming the raising line; batch errors must hit exactly the logged batch.',
    note='Trusted: the site marker is a comment on the raising line of vlib/srvtargets.py; process-side call logs are append-only files read after exit.'),
 'C06': dict(
    category='exploration', design_ref='4/C06, 3.5',
    technique='invariant at a hook: dict-subclass ledger swapped in before __enter__ (evaluated inside the server own critical section) + sampled public backlog + Condition.wait counter + worker call log; schedule fuzzer with targeted sites in the wait/insert window',
    text='Lifetimes with capacity 1-4, 2-16 caller threads / asyncio tasks, backpressure on/off, successes, failures, timeouts around the service time, abandoned streams, cancelled tasks. Backlog never above capacity (attained, never exceeded), backpressure rejections are immediate (no Condition.wait, args (n, None)) and leave no trace in any worker, slots return to zero when idle and after exit; a dedicated scenario bounds the no-backpressure wait.',
    note='Trusted: idle = callers returned and call log quiet; wait-bound scenario uses 3 s service vs 0.1 s timeout with a 1.5 s verdict threshold.'),
 'C07': dict(
    category='exploration', design_ref='4/C07',
    technique='schedule fuzzer with targeted sites between the gather thread cancelled() test and set_result, at the caller cancel(), and in the fifo_stream cancel loop; witness-request oracle; helper-thread death recorder; event-loop exception handler',
    text='Victim callers sweep call() deadlines in 20 steps across the service time, close Server.stream early at every position, and cancel asyncio tasks, while witness callers with 30 s deadlines must all be answered correctly; afterwards three more calls, gather thread alive, no helper thread or loop callback raised, __exit__ returns. Evidence counts abandonments whose result reached the gather thread before / after the cancellation.',
    note='Trusted: the before/after classification reads timestamps the server records itself (evidence only, not a verdict).'),
 'C09': dict(
    category='exploration', design_ref='4/C09, 3.6',
    technique='instrumented worker logging every call argument (memory / per-process append-only files) judged offline; real Worker._get_input_batch in virtual time with the C19 timeline oracle; schedule fuzzer with a targeted site in the collector full()->wait() window; bounded-progress watchdog for lone requests',
    text='Real servers (batched stage behind a failing upstream stage, preprocess rejections, 1-3 competing thread/process workers, in-worker pools; burst / trickle / lone arrivals): every call argument is a list of 1..b genuine inputs (single element for b=0, [x] for b=1), every accepted request in exactly one call, rejected / upstream-failed ones in none, every request answered. 20 000 virtual-time scripts on _get_input_batch for the release rules.',
    note='Trusted: scripted queue + virtual clock model SingleLane.get(timeout) + perf_counter; lone-request liveness is bounded progress (60 s + stable stacks).'),
 'C03': dict(
    category='exploration', design_ref='4/C03, 3.7',
    technique='differential runtime oracle against lazy reference generators; exhaustive enumeration of short well-formed operator sequences; instrumented source counting pulls',
    text='Every well-formed operator sequence of length <=2 (quick) / <=3 (thorough) over 50 parameter-instantiated operators x 5 input classes is executed on the real Stream (iteration / collect / drain, each under the hang watchdog) and compared with an independent sequential reference: values, order, terminal condition (exhaustion vs exception type+args at the same position); plus seeded programs up to length 7 and one-to-one chains on an unbounded instrumented source (0 pulls at construction; pulls <= k + sum of look-ahead).',
    note='Trusted: the reference generators (vlib/refstream.py); groupby groups are materialised right after groupby; shuffle compared as a multiset.'),
 'C10': dict(
    category='exploration', design_ref='4/C10, 3.2',
    technique='schedule fuzzer on every statement of Fork.__next__ with targeted sites + boundary oracle per fork + pull/receive counters under one lock + window occupancy probe + bounded-progress watchdog',
    text='tee with 2-4 forks consumed in threads at seeded relative speeds, window 2-5, source lengths 0..3*window, the source raising at every position, ~1000 (quick) fuzzed runs. Each fork must get exactly the source elements and end the way the source ended; the source is pulled once per element; pulled - min(received) <= window+2 (attained, never exceeded); no fork thread may be left blocked with stable stacks.',
    note='Trusted: look-ahead verdict uses received_i + in_call_i (sound under counting lag, one unit less sensitive than the strict count, which is reported); the window-occupancy probe reads Fork.buffer and is skipped if absent.'),
 'C01': dict(
    category='exploration', design_ref='4/C01, 3.2, 3.3',
    technique='completion-order controller (DFS over all feasible orders for small n, seeded policies for large n) + schedule fuzzer; boundary oracle on unique tokens + call ledger; SingleLane shadow deque',
    text='Real fifo_stream / Stream.parmap (thread, process, async-func) executions: every feasible completion order for n<=5 (quick) / n<=6 (thorough) is enumerated by a DFS controller that decides which pending call finishes next; seeded FIFO/LIFO/random/block-reversed orders up to n=300 under sys.monitoring delay injection. Oracle: outputs == [g(x_i)] in order, pairing, exception objects, and exactly one worker call per accepted input. Held-on-observed.',
    note='Trusted: the controller only completes calls the code has started; process-pool orders are driven by sleep durations (sampled, not enumerated).'),
 'C05': dict(
    category='fault_enumeration', design_ref='4/C05, 3.1, 3.5',
    technique='fault enumeration (shape x size x stop kind x stop position x failure site/kind/position) with bounded-progress watchdog (bound + stable stacks), reference-prefix oracle, exactly-once failure delivery, thread/process census; schedule fuzzer',
    text='4 600 enumerated cases (quick; x6 fuzz seeds thorough) over 12 pipeline shapes incl. async twins and adapters, sizes 1-3, break/close/del+gc at 4 positions, failures in source/map/parmap func/preprocessor incl. StopRequested from a real IterableQueue source. Each case must return within the bound, give the reference prefix, raise the first failure exactly once and leave no thread/process.',
    note='Trusted: hang rule = 10 s bound AND three identical stack samples; census polls 5 s; KeyboardInterrupt/SystemExit excluded as the property says.'),
 'C08': dict(
    category='exploration', design_ref='4/C08',
    technique='shadow counters (pulled/received/running) under one lock, invariant evaluated at every pull/call-entry event in the causing thread; speed-profile sweep to reach the extreme state; schedule fuzzer on SingleLane',
    text='fifo_stream, parmap (thread/process/async-func) and buffer driven with slow consumer / slow workers / slow source / bursty profiles, sizes 1-8, finite and unbounded sources; evidence reports per configuration whether the stated bound was attained exactly (it is) and that it was never exceeded. One known finding: async-function parmappers do not limit running calls to `concurrency`.',
    note='Trusted: the consumer counts an element as received before asking for the next one; process concurrency is computed from child-reported CLOCK_MONOTONIC intervals.'),
 'C16': dict(
    category='exploration', design_ref='4/C16',
    technique='differential runtime oracle: sync and async implementation driven with identical inputs, failure/rejection plan, flags and per-call duration ranking (completion-order controller in both), outputs compared',
    text='fifo_stream vs async_fifo_stream for all n! duration rankings (n<=4 quick, n<=5 thorough) x capacity 1-3 x flags x rejection/failure plans, seeded rankings to n=60; Parmapper vs the three async parmappers; Server vs AsyncServer call/stream with preprocessor rejections. Both sides are also compared with the reference meaning.',
    note='Trusted: exceptions are compared by (type name, args).'),
 'C19': dict(
    category='exploration', design_ref='4/C19, 3.6',
    technique='runtime monitor in virtual time: real EagerBatcher.__iter__ on a scripted queue + virtual clock, oracle over the recorded get/emit timeline',
    text='The real EagerBatcher runs over 20 000 (quick) / 600 000 (thorough) seeded arrival scripts on a virtual clock; partition, over-wait, early-release, late-release and waits-forever rules are evaluated on the recorded timeline, plus real-thread runs for the partition clause. Held-on-observed, not a proof; all 8 seeded timing/partition mutants are killed.',
    note='Trusted: the virtual queue/clock faithfully model queue.Queue.get(timeout) + perf_counter; ties within 1e-9 virtual seconds are excluded.'),
}

# What the seeded rounds 1-3 and the defects found later added to each workload (appended to the level text)
WIDENED = {
 'C01': 'source / consumer stalls around the 0.1 s and 1 s polling constants with delay sites at every exception-handler entry; results that ARE exception objects (returned, not raised); submissions that raise (func raises instead of returning a future), with and without a preprocessor.',
 'C02': 'fixed trees with composites inside composites (ensemble in ensemble, ensemble-sequential-ensemble, switch of ensembles); twin cases with a second server started, stopped and restarted three times in the same process; requests the user-defined switch() cannot route (raises / bad index); inputs that cannot be pickled at the first process boundary (must fail alone).',
 'C03': 'stalled consumption (consumer or source silent for 0.12-2.2 s with full buffers); workers that return their input or an exception object unchanged (exception objects travel as ordinary elements through map and parmap).',
 'C04': 'validating preprocess (rejects non-request objects); shapes with 1-3 process stages behind an ensemble and a 3-process chain, process shapes sampled per shape in the quick tier; exception objects embedded in successful results are traceback-checked only when no process stage follows (see DESIGN 13).',
 'C05': 'adapter-around-pipeline shapes (SyncIter / AsyncIter around buffer and parmap); full cross product of stop position x source-failure position for the producer/consumer hand-offs.',
 'C06': 'process-servlet lifetimes with 0.3-3 MB payloads; a contended wait-bound scenario (closed-loop callers keep the server full for 3.5 s; a no-backpressure request with timeout 0.4 s must end within timeout + 1.5 s).',
 'C07': 'capacities 1-2 and process servlets; mass abandonment (8-300 requests abandoned together by timeout or closed stream, then immediate shutdown or one more call); enqueue-timeout rounds: a caller gives up (timeout or task cancellation) waiting for room within +-6 ms of the slot being freed while a patient caller waits right behind it, with a delay site in threading.Condition.wait and a loop staller on the asyncio side.',
 'C08': 'consumer silent for two polling periods; AsyncStream twins; the same operator object iterated again right after an iteration left early (close / GC / worker failure) with calls in flight, one ledger across both iterations.',
 'C09': 'collector / preprocess interplay with upstream failures through thread queues; batch_wait_time 0 with batch_size > 1.',
 'C10': 'slow first pull and stalls of the source around the forks\' 0.1 s lock timeout.',
 'C11': 'transient init failure followed by re-entry of the SAME server object; trees with composites inside composites and a stage behind them; failure workloads with unroutable and unpicklable requests.',
 'C12': 'rare signals (real-time, SIGHUP, SIGBUS ...), unpicklable return values, os._exit, keyword arguments passed through a dict the caller keeps, process lifetimes with 1 MB results, exception classes whose constructor rejects a lone str with ValueError / KeyError / AttributeError, Process / Thread without a target.',
 'C13': 're-hosting the same object (server-side ownership), two co-resident proxies of one object, MemoryBlock proxies that mapped the block in a long-lived process.',
 'C14': 'bare managed() of a list and of a registered class, proxies used inside the server process, raising calls through every path.',
 'C16': 'results that are exception objects; submissions that raise, in the all-rankings plans and seeded cases; 6-12 concurrent no-backpressure callers on both sides; Server.stream vs AsyncServer.stream when the second submission fails with ServerBacklogFull.',
 'C17': 'race rounds (more consumers than items, then the stop request); stop after a lost race.',
 'C18': 'abandoned requests followed by more requests; latencies around the 0.1 s / 1 s polling intervals; handlers raising 12 exception classes incl. those the library uses for its own control flow; directed late-reader pipe cases with per-peer stack dumps (a known finding for most of the session, repaired at the end).',
 'C19': 'the end marker arrives as an equal, distinct object (pickle round trip), value-equal marker class, real spawn-context multiprocessing.Queue rounds.',
 'C20': 'level settings on a named logger or on the handler; whole parent programs (subprocess) with a slow file handler that wait with join / result / result(timeout) for a daemon or non-daemon child and end at once.',
}
for _k, _v in WIDENED.items():
    CHECKS[_k]['text'] = CHECKS[_k]['text'].rstrip() + ' Widened since (DESIGN 12, 14): ' + _v

WIDENED2 = {
 'C01': 'the same stream object iterated again after a complete / abandoned / failed first pass (thread, process, async-function parmappers).',
 'C02': 'exception classes the library uses for its own control flow raised by workers; exception objects as request inputs and as returned (not raised) values; 20 dedicated id-recycling cases per server kind.',
 'C03': 'falsy / None elements; every program consumed a second time and after a peek; elements whose == answers True to everything or has no truth value (numpy-like) through buffer / parmap / batch / AsyncIter / SyncIter / async buffer / async parmap.',
 'C04': 'failures raised 3 / 14 / 40 call levels below call(); classes that cannot be rebuilt from their args; equal-content failures from different sites (each checked for its own site marker and object identity).',
 'C05': 'Buffer used directly with an external stop event; a context manager that raises on entry of parmap(async_context=...); thread / child census at the instant close() returns.',
 'C06': 'stalled-pipe layouts (process-in / thread-out servlets with requests larger than the pipe); callers still waiting for room when the context is left; elapsed-time margins on every rejected / timed-out call.',
 'C07': 'consumer TASK cancelled while waiting for a stream result; process lifetimes with 100-300 kB inputs abandoned in front of the pipe; stream element deadlines: stream(timeout=0.2) over elements that need 2 s must yield / raise TimeoutError for exactly those (sync and async).',
 'C08': 'Buffer constructed directly with an unset external stop event; the same operator re-iterated with calls in flight.',
 'C09': 'an upstream stage that batches too (two batching thread stages on different queues).',
 'C11': 'sys.exit(0) / sys.exit() / SystemExit in a worker\'s __init__; a worker that dies of SystemExit raised by call() (single, batched with a full batch buffer, inside ensembles / switches), then exit and re-entry of the same object; a slow switch member behind an ensemble sibling with 200 kB abandoned results.',
 'C12': 'kill (SIGKILL / SIGTERM / SIGSEGV) while the child logs without pause, records of 50 B and 9 kB against a slow parent handler; exit codes beyond one byte (256, 257, -1); a returned value the parent cannot rebuild; falsy exit codes; timed accessors used first; falsy exception objects.',
 'C13': 'sender drops its proxy while the argument is in transit to a new child; an agent forks (stdlib fork start method) a child that inherits all its proxies by memory; a pickling that fails after __reduce__ ran (known finding).',
 'C14': 'proxy lifetimes interleaved with calls (last proxy of the manager released and a new one received in the same thread; pickled / copy.copy twin released); in-place operators (p *= 2, p += [..]) must leave the name bound to the proxy; hosted method raising SystemExit; method_to_typeid class; str() and iteration.',
 'C15': 'classes that keep their cause across pickling; alternating deep stacks (no collapsed recursive frames) x re-raise hops.',
 'C16': 'preprocessor and worker exception classes incl. StopIteration / TimeoutError / queue.Empty / asyncio.QueueFull in all four parmapper variants; the same Server / AsyncServer object entered twice (a new event loop per session) with callers waiting for room in both sessions.',
 'C17': 'overlap rounds (consumers start the next round while renew runs); other queue kinds; 2-3 rounds with renew across 2-4 supplier and 2-4 consumer processes; early-put cases (known finding).',
 'C18': '/echo of str / bytes subclasses and surrogate-escaped strings; TCP transport; failing stream elements; tiny backlogs; a request whose payload or response cannot be pickled among ordinary requests on 1-3 connections; streams whose input pauses ~0.1 s before its last elements with the consumer delayed after its empty poll.',
 'C20': 'the parent-program carrier with daemon and non-daemon children.',
}
for _k, _v in WIDENED2.items():
    CHECKS[_k]['text'] = CHECKS[_k]['text'].rstrip() + ' Rounds 4-5 (DESIGN 14): ' + _v

WIDENED3 = {
 'C01': 'element values None / 0 / empty at the first and other positions (thread, process, async); worker keyword arguments named like the feeder\'s own variables (q, to_stop, tasks ...).',
 'C02': '8 concurrent callers x results of 6 kB - 1 MB on several worker processes / switch members sharing an output pipe.',
 'C03': 'callables that let StopIteration escape and StopIteration objects as elements; peek with exc_types given as a list.',
 'C04': 'requests whose input, result or exception payload cannot be pickled (5 error classes) or cannot be rebuilt by the receiving process (4 error classes), issued among concurrent ordinary requests on P and T>P layouts.',
 'C05': 'source failures outside the Exception hierarchy.',
 'C06': 'slot-return scenario: sequential callers with backpressure read the backlog the instant they hold a result, the gather thread delayed after each completion.',
 'C07': 'victims whose late outcome is a worker failure (calls and unreached elements of closed streams).',
 'C08': 'elements that are exception objects.',
 'C10': 'the source fails with a falsy exception object or with a class outside the Exception hierarchy.',
 'C11': 'a slow process member of an ensemble still delivering 3 kB - 200 kB results when the context is left.',
 'C12': 'records of 9 kB and 300 kB against a parent handler slow enough to keep the log pipe full (records cut by the kill).',
 'C13': 'raising hosted calls with proxies as arguments.',
 'C14': 'one typeid registered with a factory that yields objects of two classes, met in opposite orders by two processes.',
 'C15': 'messages with lone surrogates, NUL, astral characters, line separators.',
 'C16': 'the time limit of a request that first waits for room (capacity 1, service 0.6 s, timeout 0.65 s) on both servers.',
 'C17': 'per-round events for all parties in the multi-round process cases, delay sites inside the lid-moving section of consumer processes; blocked put / get with an explicit long timeout when the stop is requested; a second early-put known finding (two suppliers).',
 'C18': 'payloads / responses that pickle on one side and cannot be rebuilt on the other; both pipe objects exist before either side acts in the scripted exchanges; early-reader cases (one side in its first recv before the other side is created).',
 'C20': 'records with unpicklable extra attributes and exception info; children silent for 6.5 s before they log.',
}
for _k, _v in WIDENED3.items():
    CHECKS[_k]['text'] = CHECKS[_k]['text'].rstrip() + ' Round 6 (DESIGN 14): ' + _v

WIDENED4 = {
 'C03': 'parmap operators that carry a `preprocessor` which rejects elements (return_exceptions on / off, return_x on / off) in the operator alphabet and in the reference.',
 'C14': 'two managers alive at once: proxies of the second manager\'s objects stored in, passed to and fetched from objects hosted by the first (harness and an agent process), calls through every travelled proxy.',
}
for _k, _v in WIDENED4.items():
    CHECKS[_k]['text'] = CHECKS[_k]['text'].rstrip() + ' Round 7 (DESIGN 14): ' + _v

NOT_YET = {}

ALL = [f'C{i:02d}' for i in range(1, 21)]

def main():
    checks = []
    for pid in ALL:
        if pid not in CHECKS:
            continue
        c = CHECKS[pid]
        checks.append({
            'property_id': pid,
            'quick_cmd': f'./check {pid} --tier quick',
            'thorough_cmd': f'./check {pid} --tier thorough',
            'evidence_file': f'evidence/{pid}.json',
            'replay_cmd_template': f'./check {pid} --replay {{path}}',
            'engine': c.get('engine', 'vlib.runner'),
            'level_claimed': {'category': c['category'], 'text': c['text'], 'design_ref': c['design_ref']},
            'level_note': c['note'],
            'technique': c['technique'],
        })
    na = [{'property_id': p, 'reason': NOT_YET.get(p, 'check not registered yet: machinery for this property is still being built (see DESIGN.md section 4); nothing is claimed for it')}
          for p in ALL if p not in CHECKS]
    hooks_commits = []
    m = {
        'version': 1,
        'setup_cmd': './setup.sh',
        'hooks': {
            'guard': 'MPSERVICE_VERIF',
            'enable': 'no source hooks: every probe is attached from /verif at run time (sys.monitoring local events, monkey-patched module globals, swapped containers); checks import /repo/src directly via PYTHONPATH',
            'baseline_off_cmd': 'cd /repo && /venv/bin/python -m pytest -ra -q -p no:cacheprovider --timeout=900 --continue-on-collection-errors',
            'source_commits': hooks_commits,
            'add_only': True,
        },
        'engines': [
            {'name': 'runner', 'path': 'vlib/runner.py', 'serves_properties': ALL, 'kind_free_text': 'case scheduling over runner subprocesses, per-case watchdog with stack-stability hang rule, verdict folding (violated / held / inconclusive), evidence + replay writer, known-findings matching by mechanism key'},
            {'name': 'schedfuzz', 'path': 'vlib/schedfuzz.py', 'serves_properties': ['C01','C02','C04','C05','C06','C07','C08','C09','C10','C11','C16','C17'], 'kind_free_text': 'sys.monitoring LINE-event schedule fuzzer (seeded delay injection at statement boundaries of chosen code objects, targeted sites by source pattern)'},
            {'name': 'vtime', 'path': 'vlib/vtime.py', 'serves_properties': ['C09','C19'], 'kind_free_text': 'virtual clock + scripted queue for exact timing oracles on the real batching functions'},
            {'name': 'watch', 'path': 'vlib/watch.py', 'serves_properties': ALL, 'kind_free_text': 'bounded-progress rule (bound + 3 stable stack samples), thread-death recorder, resource census (threads, children, /dev/shm)'},
        ],
        'checks': checks,
        'not_applicable': na,
        'notes': 'All checks are runtime monitors over real executions of /repo/src (PYTHONPATH), see DESIGN.md. Exit codes: 0 held on everything observed, 1 violation (VIOLATION line + replay file), 2 inconclusive (deciding monitor observed nothing / watchdog while still progressing).',
    }
    json.dump(m, open(os.path.join(HERE, 'MANIFEST.json'), 'w'), indent=1)
    print('MANIFEST.json:', len(checks), 'checks,', len(na), 'not claimed')

if __name__ == '__main__':
    main()
