#!/usr/bin/env python3
"""Regenerates MANIFEST.json from the table below (keeps it schema-valid at all times)."""
import json, os, subprocess
HERE = os.path.dirname(os.path.dirname(os.path.abspath(__file__)))

CHECKS = {
 'C03': dict(
    category='exploration', design_ref='4/C03, 3.7',
    technique='differential runtime oracle against lazy reference generators; exhaustive enumeration of short well-formed operator sequences; instrumented source counting pulls',
    text='Every well-formed operator sequence of length <=2 (quick) / <=3 (thorough) over 35 parameter-instantiated operators x 5 input classes is executed on the real Stream (iteration / collect / drain, each under the hang watchdog) and compared with an independent sequential reference: values, order, terminal condition (exhaustion vs exception type+args at the same position); plus seeded programs up to length 7 and one-to-one chains on an unbounded instrumented source (0 pulls at construction; pulls <= k + sum of look-ahead).',
    note='Trusted: the reference generators (vlib/refstream.py); groupby groups are materialised right after groupby; shuffle compared as a multiset.'),
 'C10': dict(
    category='exploration', design_ref='4/C10, 3.2',
    technique='schedule fuzzer on every statement of Fork.__next__ with targeted sites + boundary oracle per fork + pull/receive counters under one lock + window occupancy probe + bounded-progress watchdog',
    text='tee with 2-4 forks consumed in threads at seeded relative speeds, window 2-5, source lengths 0..3*window, the source raising at every position, ~1000 (quick) fuzzed runs. Each fork must get exactly the source elements and end the way the source ended; the source is pulled once per element; pulled - min(received) <= window+2 (attained, never exceeded); no fork thread may be left blocked with stable stacks.',
    note='Trusted: look-ahead verdict uses received_i + in_call_i (sound under counting lag, one unit less sensitive than the strict count, which is reported); the window-occupancy probe reads Fork.buffer and is skipped if absent.'),
 'C01': dict(
    category='exploration', design_ref='4/C01, 3.2, 3.3',
    technique='completion-order controller (DFS over all feasible orders for small n, seeded policies for large n) + schedule fuzzer; boundary oracle on unique tokens + call ledger; SingleLane shadow deque',
    text='Real fifo_stream / Stream.parmap (thread, process, async-func) executions: every feasible completion order for n<=5 (quick) / n<=6 (thorough) is enumerated by a DFS controller that decides which pending call finishes next; seeded FIFO/LIFO/random/block-reversed orders up to n=300 under sys.monitoring delay injection. Oracle: outputs == [g(x_i)] in order, pairing, exception objects, and exactly one worker call per accepted input. Held-on-observed.',
    note='Trusted: the controller only completes calls the code has started; process-pool orders are driven by sleep durations (sampled, not enumerated).'),
 'C05': dict(
    category='fault_enumeration', design_ref='4/C05, 3.1, 3.5',
    technique='fault enumeration (shape x size x stop kind x stop position x failure site/kind/position) with bounded-progress watchdog (bound + stable stacks), reference-prefix oracle, exactly-once failure delivery, thread/process census; schedule fuzzer',
    text='4 600 enumerated cases (quick; x6 fuzz seeds thorough) over 12 pipeline shapes incl. async twins and adapters, sizes 1-3, break/close/del+gc at 4 positions, failures in source/map/parmap func/preprocessor incl. StopRequested from a real IterableQueue source. Each case must return within the bound, give the reference prefix, raise the first failure exactly once and leave no thread/process.',
    note='Trusted: hang rule = 10 s bound AND three identical stack samples; census polls 5 s; KeyboardInterrupt/SystemExit excluded as the property says.'),
 'C08': dict(
    category='exploration', design_ref='4/C08',
    technique='shadow counters (pulled/received/running) under one lock, invariant evaluated at every pull/call-entry event in the causing thread; speed-profile sweep to reach the extreme state; schedule fuzzer on SingleLane',
    text='fifo_stream, parmap (thread/process/async-func) and buffer driven with slow consumer / slow workers / slow source / bursty profiles, sizes 1-8, finite and unbounded sources; evidence reports per configuration whether the stated bound was attained exactly (it is) and that it was never exceeded. One known finding: async-function parmappers do not limit running calls to `concurrency`.',
    note='Trusted: the consumer counts an element as received before asking for the next one; process concurrency is computed from child-reported CLOCK_MONOTONIC intervals.'),
 'C16': dict(
    category='exploration', design_ref='4/C16',
    technique='differential runtime oracle: sync and async implementation driven with identical inputs, failure/rejection plan, flags and per-call duration ranking (completion-order controller in both), outputs compared',
    text='fifo_stream vs async_fifo_stream for all n! duration rankings (n<=4 quick, n<=5 thorough) x capacity 1-3 x flags x rejection/failure plans, seeded rankings to n=60; Parmapper vs the three async parmappers; Server vs AsyncServer call/stream with preprocessor rejections. Both sides are also compared with the reference meaning.',
    note='Trusted: exceptions are compared by (type name, args).'),
 'C19': dict(
    category='exploration', design_ref='4/C19, 3.6',
    technique='runtime monitor in virtual time: real EagerBatcher.__iter__ on a scripted queue + virtual clock, oracle over the recorded get/emit timeline',
    text='The real EagerBatcher runs over 20 000 (quick) / 600 000 (thorough) seeded arrival scripts on a virtual clock; partition, over-wait, early-release, late-release and waits-forever rules are evaluated on the recorded timeline, plus real-thread runs for the partition clause. Held-on-observed, not a proof; all 8 seeded timing/partition mutants are killed.',
    note='Trusted: the virtual queue/clock faithfully model queue.Queue.get(timeout) + perf_counter; ties within 1e-9 virtual seconds are excluded.'),
}

NOT_YET = {}

ALL = [f'C{i:02d}' for i in range(1, 21)]

def main():
    checks = []
    for pid in ALL:
        if pid not in CHECKS:
            continue
        c = CHECKS[pid]
        checks.append({
            'property_id': pid,
            'quick_cmd': f'./check {pid} --tier quick',
            'thorough_cmd': f'./check {pid} --tier thorough',
            'evidence_file': f'evidence/{pid}.json',
            'replay_cmd_template': f'./check {pid} --replay {{path}}',
            'engine': c.get('engine', 'vlib.runner'),
            'level_claimed': {'category': c['category'], 'text': c['text'], 'design_ref': c['design_ref']},
            'level_note': c['note'],
            'technique': c['technique'],
        })
    na = [{'property_id': p, 'reason': NOT_YET.get(p, 'check not registered yet: machinery for this property is still being built (see DESIGN.md section 4); nothing is claimed for it')}
          for p in ALL if p not in CHECKS]
    hooks_commits = []
    m = {
        'version': 1,
        'setup_cmd': './setup.sh',
        'hooks': {
            'guard': 'MPSERVICE_VERIF',
            'enable': 'no source hooks: every probe is attached from /verif at run time (sys.monitoring local events, monkey-patched module globals, swapped containers); checks import /repo/src directly via PYTHONPATH',
            'baseline_off_cmd': 'cd /repo && /venv/bin/python -m pytest -ra -q -p no:cacheprovider --timeout=900 --continue-on-collection-errors',
            'source_commits': hooks_commits,
            'add_only': True,
        },
        'engines': [
            {'name': 'runner', 'path': 'vlib/runner.py', 'serves_properties': ALL, 'kind_free_text': 'case scheduling over runner subprocesses, per-case watchdog with stack-stability hang rule, verdict folding (violated / held / inconclusive), evidence + replay writer, known-findings matching by mechanism key'},
            {'name': 'schedfuzz', 'path': 'vlib/schedfuzz.py', 'serves_properties': ['C01','C02','C04','C05','C06','C07','C08','C09','C10','C11','C16','C17'], 'kind_free_text': 'sys.monitoring LINE-event schedule fuzzer (seeded delay injection at statement boundaries of chosen code objects, targeted sites by source pattern)'},
            {'name': 'vtime', 'path': 'vlib/vtime.py', 'serves_properties': ['C09','C19'], 'kind_free_text': 'virtual clock + scripted queue for exact timing oracles on the real batching functions'},
            {'name': 'watch', 'path': 'vlib/watch.py', 'serves_properties': ALL, 'kind_free_text': 'bounded-progress rule (bound + 3 stable stack samples), thread-death recorder, resource census (threads, children, /dev/shm)'},
        ],
        'checks': checks,
        'not_applicable': na,
        'notes': 'All checks are runtime monitors over real executions of /repo/src (PYTHONPATH), see DESIGN.md. Exit codes: 0 held on everything observed, 1 violation (VIOLATION line + replay file), 2 inconclusive (deciding monitor observed nothing / watchdog while still progressing).',
    }
    json.dump(m, open(os.path.join(HERE, 'MANIFEST.json'), 'w'), indent=1)
    print('MANIFEST.json:', len(checks), 'checks,', len(na), 'not claimed')

if __name__ == '__main__':
    main()
