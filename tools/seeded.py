#!/venv/bin/python
"""Run checks against an independently seeded change without touching /repo:
   tools/seeded.py <seeded dir or patch.diff> [Cnn ...] [--tier quick] [--demo]
The patch is applied (git apply semantics via `patch -p1`) to a scratch copy of /repo under /tmp, which is removed afterwards.
--demo also runs the demonstration (demo.py) against the patched and the unpatched copy."""
import argparse, json, os, shutil, subprocess, sys, tempfile, time

HERE = os.path.dirname(os.path.dirname(os.path.abspath(__file__)))
REPO = os.environ.get('VERIF_REPO', '/repo')


def main():
    ap = argparse.ArgumentParser()
    ap.add_argument('target')
    ap.add_argument('props', nargs='*')
    ap.add_argument('--tier', default='quick')
    ap.add_argument('--demo', action='store_true')
    ap.add_argument('--seed', default='0')
    a = ap.parse_args()
    d = a.target if os.path.isdir(a.target) else os.path.dirname(a.target)
    patch = os.path.join(d, 'patch.diff') if os.path.isdir(a.target) else a.target
    props = a.props
    meta_path = os.path.join(d, 'meta.json')
    if not props and os.path.exists(meta_path):
        props = [json.load(open(meta_path))['property']]
    scratch = tempfile.mkdtemp(prefix='vf-seeded-')
    try:
        shutil.copytree(os.path.join(REPO, 'src'), os.path.join(scratch, 'src'))
        if a.demo:
            shutil.copytree(os.path.join(REPO, 'src'), os.path.join(scratch, 'clean', 'src'))
        r = subprocess.run(['patch', '-p1', '-s', '-i', os.path.abspath(patch)], cwd=scratch, capture_output=True, text=True)
        if r.returncode:
            print('PATCH DOES NOT APPLY:', r.stdout[-500:], r.stderr[-500:])
            return 3
        if a.demo:
            for name, root in (('patched', scratch), ('unpatched', os.path.join(scratch, 'clean'))):
                env = dict(os.environ, PYTHONPATH=os.path.join(root, 'src'), PYTHONDONTWRITEBYTECODE='1')
                t0 = time.time()
                try:
                    r = subprocess.run(['/venv/bin/python', os.path.join(os.path.abspath(d), 'demo.py')], env=env, capture_output=True, text=True, timeout=300, cwd=root)
                    print(f'demo on {name} tree: exit {r.returncode} in {time.time()-t0:.1f}s :: {(r.stdout.strip().splitlines() or [""])[-1][:200]}')
                except subprocess.TimeoutExpired:
                    print(f'demo on {name} tree: TIMEOUT (300 s)')
        for p in props:
            env = dict(os.environ, VERIF_REPO=scratch, VERIF_EVIDENCE_DIR=os.path.join(scratch, 'evidence'), VERIF_SEED=a.seed)
            t0 = time.time()
            r = subprocess.run([os.path.join(HERE, 'check'), p, '--tier', a.tier], env=env, capture_output=True, text=True, timeout=7200)
            mechs = sorted({l.split('mechanism=')[1].split(' ')[0] for l in r.stdout.splitlines() if 'mechanism=' in l})
            verdict = {0: 'MISSED', 1: 'CAUGHT', 2: 'INCONCLUSIVE'}.get(r.returncode, f'rc={r.returncode}')
            if r.returncode == 1 and 'VIOLATION property=' not in r.stdout:
                verdict = 'CRASH'
            print(f'{p} {a.tier}: {verdict} in {time.time()-t0:.0f}s {mechs}')
            if verdict in ('CRASH', 'INCONCLUSIVE'):
                print(r.stdout[-800:], r.stderr[-800:])
    finally:
        shutil.rmtree(scratch, ignore_errors=True)


if __name__ == '__main__':
    sys.exit(main())
