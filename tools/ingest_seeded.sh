#!/bin/sh
# tools/ingest_seeded.sh <worktree> <id, e.g. C02-g> : take a sub-agent's uncommitted change out of its scratch worktree into
# seeded/<id>/ (patch.diff, demo.py, notes.md), then run the demonstration on a patched and an unpatched copy and the property's quick check.
set -e
cd "$(dirname "$0")/.."
wt=$1; id=$2; prop=${id%-*}
mkdir -p seeded/$id
git -C "$wt" diff -- src > seeded/$id/patch.diff
cp "$wt/demo.py" seeded/$id/demo.py
cp "$wt/notes.md" seeded/$id/notes.md 2>/dev/null || true
test -s seeded/$id/patch.diff || { echo "empty patch"; exit 3; }
tools/seeded.py seeded/$id $prop --demo
