#!/bin/sh
# Environment self-test; nothing is built or downloaded (pure-Python machinery, stdlib only).
set -e
HERE="$(cd "$(dirname "$0")" && pwd)"
cd "$HERE"
PY="${VERIF_PYTHON:-/venv/bin/python}"
PYTHONPATH="$HERE:${VERIF_REPO:-/repo}/src" "$PY" - <<'PYEOF'
import sys
assert sys.version_info >= (3, 12), 'sys.monitoring needs Python >= 3.12'
import mpservice, os
src = os.path.realpath(os.path.dirname(os.path.dirname(mpservice.__file__)))
exp = os.path.realpath(os.path.join(os.environ.get('VERIF_REPO', '/repo'), 'src'))
assert src == exp, (src, exp)
import vlib.runner, vlib.schedfuzz, vlib.vtime, vlib.watch
import psutil
print('setup ok: python', sys.version.split()[0], 'mpservice from', src)
PYEOF
mkdir -p evidence/replay
