"""C19 — EagerBatcher partitions its input and waits no longer than told.

The real `EagerBatcher.__iter__` runs single-threaded against a scripted queue on a virtual
clock (vlib.vtime); the oracle works on the virtual timeline.  A second workload drives the
real class with `queue.Queue` and real threads for the partition clause only."""
from __future__ import annotations

import queue as _queue
import pickle
import random
import threading

from vlib import vtime

PROPERTY = 'C19'
EVALUATIONS_KEYS = ['scripts', 'thread_runs']
LEVEL = 'exploration'
RULE = ('seeded arrival scripts (gaps drawn around the wait time, bursts, long pauses, slow consumers), '
        'batch_size 1-6, wait 0-1 s or default, None/custom end markers, falsy items; a script is non-trivial '
        'when it produced >=2 batches incl. at least one partial batch released by the timer; distinct = distinct '
        '(parameters, arrival pattern) hashes')
ASSUMPTIONS = [
    'the batcher reads time only through the module-global `time` of mpservice.streamer._streamer and waits only in q.get()',
    'ties (|arrival - deadline| < 1e-9 virtual seconds) are excluded from timing verdicts',
]
CASE_TIMEOUT = 120
PARALLEL = 14
EPS = 1e-9


def gen_cases(tier, seed):
    n_cases = 40 if tier == 'quick' else 400
    per = 500 if tier == 'quick' else 1500
    cases = [{'kind': 'vtime', 'seed': seed * 100003 + i, 'n_scripts': per} for i in range(n_cases)]
    nt = 6 if tier == 'quick' else 40
    cases += [{'kind': 'threads', 'seed': seed * 7919 + i, 'rounds': 5} for i in range(nt)]
    return cases


class EqMarker:
    """A marker specified by value (as it would arrive through a process queue)."""

    def __init__(self, v):
        self.v = v

    def __eq__(self, other):
        return isinstance(other, EqMarker) and other.v == self.v

    def __hash__(self):
        return hash(self.v)

    def __repr__(self):
        return f'EqMarker({self.v!r})'


ENDS = [None, None, None, 'END', ('end', 0), -1, 10 ** 20, EqMarker('stop')]
FALSY = [0, False, '', (), 0.0]


def make_script(rng):
    b = rng.choice([1, 1, 2, 2, 3, 3, 4, 5, 6])
    wait = rng.choice([0, 0, 0.001, 0.05, 0.2, 0.2, 1.0, None])
    eff_wait = wait if wait is not None else (60 if b > 1 else 0)
    end = rng.choice(ENDS)
    n = rng.choice([0, 1, 1, 2, 3, 4, 5, 7, 10, 16, 25])
    t = 1000.0 + rng.random()
    arrivals = []
    w = eff_wait if eff_wait > 0 else 0.01
    mode = rng.choice(['mixed', 'mixed', 'burst', 'trickle', 'around'])
    for i in range(n):
        if mode == 'burst':
            gap = 0.0 if rng.random() < 0.8 else w * rng.uniform(1.2, 4)
        elif mode == 'trickle':
            gap = w * rng.uniform(1.01, 3)
        elif mode == 'around':
            gap = w * rng.uniform(0.3, 1.7) / max(1, rng.choice([1, 1, b, b - 1 or 1]))
        else:
            r = rng.random()
            if r < 0.3:
                gap = 0.0
            elif r < 0.6:
                gap = w * rng.uniform(0.01, 0.6)
            elif r < 0.85:
                gap = w * rng.uniform(0.7, 1.4)
            else:
                gap = w * rng.uniform(2, 10)
        t += gap
        if rng.random() < 0.08:
            item = rng.choice(FALSY)
            item = (item,) if end is not None and item == end else item
            # keep identity by position: wrap in a list carrying the index
            item = [i, item] if rng.random() < 0.5 else item
        elif end is not None and rng.random() < 0.05:
            item = None  # with a custom end marker, None is an ordinary item
        else:
            item = ('x', i)
        arrivals.append((t, item))
    # end marker
    r = rng.random()
    if r < 0.3:
        gap = 0.0
    elif r < 0.6:
        gap = w * rng.uniform(0.05, 0.9)
    else:
        gap = w * rng.uniform(1.1, 5)
    t += gap
    # the marker is specified by value: through a process queue it arrives as an equal but distinct object
    arrivals.append((t, pickle.loads(pickle.dumps(end)) if rng.random() < 0.6 else end))
    consumer = rng.choice(['fast', 'fast', 'slow', 'mixed'])
    return {'b': b, 'wait': wait, 'end': end, 'arrivals': arrivals, 'consumer': consumer}


def run_script(S, script, rng):
    """Drive the real EagerBatcher over one script; returns (violations, stats)."""
    b, wait, end = script['b'], script['wait'], script['end']
    eff_wait = wait if wait is not None else (60 if b > 1 else 0)
    arrivals = script['arrivals']
    clock = vtime.VClock(arrivals[0][0] - 0.5 if arrivals else 1000.0)
    q = vtime.ScriptedQueue(clock, arrivals)
    restore, _nb = vtime.bind_clock(S, clock)  # the module-global clock(s) of the code under test
    script['_restore'] = restore
    kwargs = {}
    if wait is not None:
        kwargs['batch_wait_time'] = wait
    if end is not None:
        kwargs['endmarker'] = end
    eb = S.EagerBatcher(q, batch_size=b, **kwargs)
    batches = []  # (items, emit_time, log_index_range)
    it = iter(eb)
    w = eff_wait if eff_wait > 0 else 0.01
    try:
        while True:
            lo = len(q.log)
            try:
                batch = next(it)
            except StopIteration:
                break
            batches.append((list(batch), clock.now, lo, len(q.log)))
            if script['consumer'] == 'slow' or (script['consumer'] == 'mixed' and rng.random() < 0.4):
                clock.now += w * rng.uniform(0.2, 3)
    except vtime.Deadlock:
        return [{'mech': 'eagerbatcher/untimed-wait-after-end',
                 'msg': 'an untimed get was issued with nothing left to arrive (end marker consumed or swallowed): would wait forever'}], {}
    return judge_timeline('eagerbatcher', arrivals, batches, q.log, b, eff_wait)


def judge_timeline(what, arrivals, batches, qlog, b, eff_wait):
    """The five rules of DESIGN C19 on a recorded virtual timeline.

    arrivals: [(t, item)] with the end marker last; batches: [(items, emit_time, log_lo, log_hi)];
    qlog: the ScriptedQueue log."""
    viol = []
    items = [x for _, x in arrivals[:-1]]
    n = len(items)
    flat = [x for bt in batches for x in bt[0]]
    # (1) partition
    if len(flat) != n or any(a is not c and a != c for a, c in zip(flat, items)):
        viol.append({'mech': f'{what}/partition', 'msg': f'concatenation of batches != input: {flat!r} vs {items!r}'})
        return viol, {}
    for bt in batches:
        if not (1 <= len(bt[0]) <= b):
            viol.append({'mech': f'{what}/batch-size', 'msg': f'batch of size {len(bt[0])} with batch_size {b}'})
            return viol, {}
    taken = {}
    for ev in qlog:
        if ev[0] == 'get' and isinstance(ev[4], int):
            taken[ev[4]] = ev[3]
    arr = [a for a, _ in arrivals]
    stats = {'batches': len(batches), 'full': 0, 'partial_timer': 0, 'partial_end': 0, 'ties': 0}
    pos = 0
    end_idx = n  # index of the end marker in arrivals
    for bi, (bitems, emit, lo, hi) in enumerate(batches):
        k = len(bitems)
        first, last = pos, pos + k - 1
        ft = taken[first]
        deadline = ft + eff_wait
        # (2) over-wait
        for j in range(first + 1, last + 1):
            lim = max(taken[j - 1], deadline)
            if arr[j] > lim + EPS:
                viol.append({'mech': f'{what}/over-wait',
                             'msg': f'item #{j} arrived at {arr[j]:.6f}, after the deadline {deadline:.6f} of its batch (first taken {ft:.6f}) and was not queued when polled',
                             'batch': bi})
                break
            if abs(arr[j] - lim) <= EPS:
                stats['ties'] += 1
        nxt = last + 1  # index of the next arrival (item or end marker)
        if k == b:
            stats['full'] += 1
            # (4) full batch: emitted as soon as its last member was taken
            if emit > taken[last] + EPS:
                viol.append({'mech': f'{what}/late-release', 'msg': f'full batch emitted at {emit:.6f}, last member taken at {taken[last]:.6f}', 'batch': bi})
        else:
            closed_by_end = nxt == end_idx and end_idx in taken and taken[end_idx] <= emit + EPS
            if closed_by_end:
                stats['partial_end'] += 1
                if emit > taken[end_idx] + EPS:
                    viol.append({'mech': f'{what}/late-release', 'msg': f'last batch emitted at {emit:.6f}, end marker taken at {taken[end_idx]:.6f}', 'batch': bi})
                lim = max(taken[last], deadline)
                if arr[end_idx] > lim + EPS:
                    viol.append({'mech': f'{what}/over-wait', 'msg': f'waited for the end marker until {arr[end_idx]:.6f}, past deadline {deadline:.6f}', 'batch': bi})
            else:
                stats['partial_timer'] += 1
                # (3) early release: the next arrival must not have come within the wait
                if abs(arr[nxt] - deadline) <= EPS or abs(arr[nxt] - max(deadline, taken[last])) <= EPS:
                    stats['ties'] += 1
                elif arr[nxt] < max(deadline, taken[last]) - EPS and arr[nxt] < deadline - EPS:
                    viol.append({'mech': f'{what}/early-release',
                                 'msg': f'partial batch {bitems!r} emitted although item #{nxt} arrived at {arr[nxt]:.6f} < deadline {deadline:.6f} (first taken {ft:.6f})', 'batch': bi})
                elif arr[nxt] <= taken[last] - EPS:
                    viol.append({'mech': f'{what}/early-release',
                                 'msg': f'partial batch emitted although item #{nxt} was already queued at the last poll', 'batch': bi})
                # (4) late release
                lim = max(deadline, taken[last])
                if emit > lim + EPS:
                    viol.append({'mech': f'{what}/late-release', 'msg': f'partial batch emitted at {emit:.6f} > max(deadline {deadline:.6f}, last taken {taken[last]:.6f})', 'batch': bi})
        pos += k
    return viol, stats


def run_case(case):
    import mpservice.streamer._streamer as S

    rng = random.Random(case['seed'])
    if case['kind'] == 'threads':
        return run_threads(S, case, rng)
    obs = {'scripts': 0, 'batches': 0, 'full': 0, 'partial_timer': 0, 'partial_end': 0, 'ties_excluded': 0, 'items': 0}
    violations = []
    sigs = []
    sample = None
    try:
        for i in range(case['n_scripts']):
            script = make_script(rng)
            try:
                viol, st = run_script(S, script, rng)
            finally:
                r = script.pop('_restore', None)
                if r:
                    r()
            obs['scripts'] += 1
            obs['items'] += len(script['arrivals']) - 1
            for k in ('batches', 'full', 'partial_timer', 'partial_end'):
                obs[k] += st.get(k, 0)
            obs['ties_excluded'] += st.get('ties', 0)
            if viol:
                for v in viol[:1]:
                    v['script'] = {k: (repr(x) if k in ('arrivals', 'end') else x) for k, x in script.items()}
                    violations.append(v)
                if len(violations) > 5:
                    break
            if st.get('batches', 0) >= 2 and st.get('partial_timer', 0) >= 1:
                sigs.append(hash((script['b'], script['wait'], repr(script['end']), tuple(round(a, 9) for a, _ in script['arrivals']))) & 0xFFFFFFFFFFFF)
            if sample is None and st.get('partial_timer') and st.get('full'):
                sample = {'batch_size': script['b'], 'wait': script['wait'], 'end': repr(script['end']),
                          'arrivals': [(round(a - script['arrivals'][0][0], 4), repr(x)) for a, x in script['arrivals']][:12],
                          'stats': st}
    finally:
        pass
    return {'violations': violations, 'obs': obs, 'sigs': sigs, 'nontrivial': bool(sigs), 'sample': sample}


def run_threads(S, case, rng):
    """Real threads + queue.Queue: partition clause only (timing is decided in virtual time)."""
    obs = {'thread_runs': 0, 'thread_items': 0, 'thread_batches': 0}
    violations = []
    for r in range(case['rounds']):
        b = rng.choice([1, 2, 3, 5])
        wait = rng.choice([0, 0.001, 0.005, 0.02])
        n = rng.choice([0, 1, 5, 40, 200])
        end = rng.choice([None, None, 'STOP', ('end', 0), EqMarker('stop')])
        qkind = rng.choice(['thread', 'thread', 'process'])
        if qkind == 'process':
            import multiprocessing

            n = min(n, 40)
            q = multiprocessing.get_context('spawn').Queue()  # everything is pickled: the marker arrives as an equal, distinct object
        else:
            q = _queue.Queue(rng.choice([0, 1, 3]))
        items = [('x', i) for i in range(n)]
        pauses = [rng.choice([0, 0, 0, 0.0005, wait * 1.5]) for _ in range(n)]

        def produce():
            import time

            for x, p in zip(items, pauses):
                if p:
                    time.sleep(p)
                q.put(x)
            q.put(pickle.loads(pickle.dumps(end)))

        t = threading.Thread(target=produce, name='vf-producer')
        t.start()
        out = []
        kw = {} if end is None else {'endmarker': end}

        def consume():
            for batch in S.EagerBatcher(q, batch_size=b, batch_wait_time=wait, **kw):
                out.append(list(batch))

        from vlib import watch

        try:
            watch.run_bounded(consume, 30, 'EagerBatcher iteration')
        except watch.Hang as h:
            violations.append({'mech': 'eagerbatcher/iteration-never-ends', 'msg': f'real {qkind} queue, end marker {end!r}, b={b}: iteration did not end after the marker was put; '
                               f'batches so far {out[-3:]!r}', 'stacks': h.stacks})
            return {'violations': violations, 'obs': obs, 'sig': None, 'nontrivial': False, 'sample': None, 'exit_after': True}
        t.join()
        if qkind == 'process':
            q.close()
            q.join_thread()
            obs['process_queue_runs'] = obs.get('process_queue_runs', 0) + 1
        flat = [x for bt in out for x in bt]
        obs['thread_runs'] += 1
        obs['thread_items'] += n
        obs['thread_batches'] += len(out)
        if flat != items or any(not (1 <= len(bt) <= b) for bt in out):
            violations.append({'mech': 'eagerbatcher/partition', 'msg': f'real-thread run: batches {out!r} do not partition the input (b={b})'})
    return {'violations': violations, 'obs': obs, 'sig': None, 'nontrivial': False,
            'sample': None}


def decide_inconclusive(obs, results, cases):
    if obs.get('partial_timer', 0) == 0 or obs.get('full', 0) == 0 or obs.get('partial_end', 0) == 0:
        return 'the timing monitor never saw one of: timer-released partial batch, full batch, end-closed batch'
    return None


RULE = RULE + '; the marker arrives as an equal, distinct object; spawn-context multiprocessing.Queue rounds'
