"""C03 — Stream pipelines equal their sequential meaning; lazy construction; incremental pulls."""
from __future__ import annotations

import itertools
import random

from vlib import refstream as R, watch
from vlib.targets import Boom, norm_exc

PROPERTY = 'C03'
EVALUATIONS_KEYS = ['programs', 'incremental_runs']
LEVEL = 'exploration'
RULE = ('(a) exhaustive: every well-formed operator sequence of length <=2 (quick) / <=3 (thorough) over 50 parameter-instantiated operators x 7 input '
        'classes (empty, singleton, ints, ints+exception objects, nested lists, None/falsy elements ending in None, nested lists of None), consumed by iteration / collect / drain / a second iteration of the same Stream object after a complete or abandoned first one; (b) seeded random programs '
        'of length <=7 on lists up to 40; (c) one-to-one chains on an instrumented unbounded source: 0 pulls at construction, pulls <= k + sum of '
        'look-ahead after taking k outputs. non-trivial = program of >=2 operators whose reference output is non-empty or ends in an exception; '
        'distinct = distinct (program, input); (d) stalled consumption: consumer or source silent for 0.12-2.2 s while buffers / look-ahead windows are full; (e) elements whose == answers True to everything or has no truth value (numpy-like), callables that let StopIteration escape and StopIteration objects as elements (an error, never a silent end); hostile == through buffer / parmap / batch / AsyncIter / SyncIter / async buffer / async parmap: the same objects must come out')
ASSUMPTIONS = ['groupby groups are materialised by a map directly after groupby (late consumption across threads is schedule-dependent by itertools\' own contract)',
               'shuffle is compared as a multiset and only as the last operator',
               'exceptions compared by (type name, args)']
CASE_TIMEOUT = 200
PARALLEL = 15
EXHAUSTIVE = {'quick': True, 'thorough': True}
BOUND = 15


def inputs():
    return {
        'empty': ('S', []),
        'single': ('S', [11]),
        'ints': ('S', [0, 1, 2, 3, 4]),
        'mixed': ('S', [1, ('exc', 'Boom', ('e', 1)), 2, ('exc', 'ValueError', ('v',)), ('exc', 'KeyError', ('k',)), 3]),
        'nested': ('L', [[1, 2], [3], [], [4, 5, 6], [7]]),
        # values an implementation might mistake for "nothing": None and other falsy elements, None last
        'falsy': ('S', [None, 0, '', False, 0.0, (), None]),
        'nested-falsy': ('L', [[None], [], [0, None], [None]]),
        # an exception object of the class that iteration protocols use for "the end"
        'stopiter': ('S', [0, 1, ('exc', 'StopIteration', ('elem',)), 3, ('exc', 'ValueError', ('v',)), 4]),
    }


EXCS = {'Boom': Boom, 'ValueError': ValueError, 'KeyError': KeyError, 'StopIteration': StopIteration}


def realize(items):
    out = []
    for x in items:
        if isinstance(x, (tuple, list)) and len(x) == 3 and x[0] == 'exc':
            out.append(EXCS[x[1]](*x[2]))
        elif isinstance(x, list):
            out.append(list(x))
        else:
            out.append(x)
    return out


def enum_programs(maxlen, n, kind0):
    ops = R.alphabet(n)
    progs = []

    def rec(prefix, kind):
        if prefix:
            progs.append(list(prefix))
        if len(prefix) == maxlen:
            return
        if prefix and prefix[-1][0] == 'shuffle':
            return
        for op in ops:
            k2 = R.kind_after(kind, op)
            if k2 is None:
                continue
            prefix.append(op)
            rec(prefix, k2)
            prefix.pop()

    rec([], kind0)
    return progs


def gen_cases(tier, seed):
    rng = random.Random(seed)
    maxlen = 2 if tier == 'quick' else 3
    cases = []
    for iname, (kind, items) in inputs().items():
        progs = enum_programs(maxlen, len(items), kind)
        chunk = 120 if tier == 'quick' else 400
        for i in range(0, len(progs), chunk):
            cases.append({'kind': 'exhaustive', 'input': iname, 'start': i, 'stop': min(len(progs), i + chunk), 'maxlen': maxlen,
                          'mode_seed': rng.randrange(1 << 30)})
    for i in range(300 if tier == "quick" else 3000):
        cases.append({'kind': 'random', 'seed': rng.randrange(1 << 30), 'n_programs': 25})
    for i in range(100 if tier == "quick" else 1200):
        cases.append({'kind': 'incremental', 'seed': rng.randrange(1 << 30), 'n_programs': 6})
    # (d) a consumer (or source) that stalls for about a polling interval while buffers / look-ahead windows are full:
    # the meaning of the pipeline must not depend on how long anybody pauses
    for i in range(28 if tier == 'quick' else 400):
        cases.append({'kind': 'stalled', 'seed': rng.randrange(1 << 30), 'stall': rng.choice([0.12, 0.25, 1.15, 1.15, 2.2]), 'who': rng.choice(['consumer', 'consumer', 'source']),
                      'at': rng.choice([1, 2, 5])})
    # (e) elements whose == is not an identity test, through the operators and adapters that only pass elements on
    for carrier in ('buffer', 'buffer-parmap', 'peek-batch-unbatch', 'AsyncIter', 'AsyncIter-of-stream', 'async-buffer', 'async-parmap', 'SyncIter'):
        for size in (1, 3):
            cases.append({'kind': 'hostile-eq', 'carrier': carrier, 'size': size})
    return cases


class Source:
    """Instrumented re-iterable source: counts pulls of elements (terminal pulls are not elements)."""

    def __init__(self, items):
        self.items = items
        self.pulls = 0
        self.iters = 0

    def __iter__(self):
        self.iters += 1
        for x in self.items:
            self.pulls += 1
            yield x


def run_ref(items, prog):
    g = iter(items)
    for op in prog:
        g = R.apply_ref(g, op)
    out = []
    try:
        for z in g:
            out.append(norm_exc(z))
        return out, ('END',)
    except Exception as e:  # noqa: BLE001
        return out, ('RAISED', norm_exc(e))


def run_real(S, items, prog, mode):
    src = Source(items)
    st = S.Stream(src)
    for op in prog:
        st = R.apply_real(st, op)
    built_pulls = src.pulls
    out = []
    term = ('END',)
    if mode in ('twice', 'peek-then-all'):
        # the same Stream object consumed a second time (the source is re-iterable): the first pass -- complete, or left after one
        # element -- must not change what the second pass yields
        it = iter(st)
        try:
            for z in it:
                if mode == 'peek-then-all':
                    break
        except Exception:  # noqa: BLE001
            pass
        close = getattr(it, 'close', None)
        if close:
            close()
        mode = 'iter'
    try:
        if mode == 'iter':
            for z in st:
                out.append(norm_exc(z))
        elif mode == 'collect':
            out = [norm_exc(z) for z in st.collect()]
        else:  # drain: only the count is observable; record outputs through a trailing map
            seen = []

            def rec(x):
                seen.append(norm_exc(x))
                return x

            st = st.map(rec)
            try:
                k = st.drain()
                out = seen
                if k != len(seen):
                    term = ('DRAIN-COUNT', k, len(seen))
            except Exception:
                out = seen
                raise
    except Exception as e:  # noqa: BLE001
        term = ('RAISED', norm_exc(e))
        if mode == 'collect':
            out = None  # collect gives nothing on failure: only the terminal is compared
    return out, term, built_pulls


def check_program(S, viol, obs, items_desc, prog, mode):
    items = realize(items_desc)
    exp_out, exp_term = run_ref(realize(items_desc), prog)
    try:
        out, term, built = watch.run_bounded(lambda: run_real(S, items, prog, mode), BOUND, 'pipeline')
    except watch.Hang as h:
        viol.append({'mech': 'pipeline/hang', 'msg': f'program {prog!r} on {items_desc!r} ({mode}) did not finish', 'stacks': h.stacks, 'program': prog})
        return 'hang'
    obs['programs'] += 1
    obs['outputs_compared'] += len(exp_out)
    if built:
        viol.append({'mech': 'pipeline/eager-construction', 'msg': f'building {prog!r} touched the source ({built})', 'program': prog})
    is_shuffle = prog[-1][0] == 'shuffle'
    ok = True
    if out is None:
        ok = term == exp_term
    elif is_shuffle:
        if exp_term[0] == 'RAISED':
            # shuffle holds elements back; on an upstream failure only the terminal and "no invented element" are required
            pool = list(map(repr, exp_out))
            sub = True
            for r in map(repr, out):
                if r in pool:
                    pool.remove(r)
                else:
                    sub = False
            ok = sub and term == exp_term
        else:
            ok = sorted(map(repr, out)) == sorted(map(repr, exp_out)) and term == exp_term
    else:
        ok = out == exp_out and term == exp_term
    if not ok:
        opn = '+'.join(o[0] for o in prog)
        mech = 'pipeline/differs-from-sequential-meaning'
        if any(o[0] == 'head' for o in prog) and term[0] == 'RAISED' and exp_term == ('END',) and (out is None or out == exp_out):
            mech = 'head/evaluates-element-beyond-n'
        viol.append({'mech': mech, 'msg': f'{opn} on {items_desc!r} via {mode}: got {out!r} {term!r}, reference {exp_out!r} {exp_term!r}', 'program': prog})
    if exp_term[0] == 'RAISED':
        obs['programs_ending_in_exception'] += 1
    return (len(prog) >= 2 and (bool(exp_out) or exp_term[0] == 'RAISED'))


def _same(x):
    return x


async def _same_async(x):
    return x


def run_case(case):
    import mpservice.streamer._streamer as S

    viol = []
    obs = {'programs': 0, 'outputs_compared': 0, 'programs_ending_in_exception': 0, 'incremental_runs': 0, 'max_extra_pulls_minus_allowed': -999}
    sigs = []
    sample = None
    if case['kind'] == 'exhaustive':
        kind, items_desc = inputs()[case['input']]
        progs = enum_programs(case['maxlen'], len(items_desc), kind)[case['start']:case['stop']]
        rng = random.Random(case['mode_seed'])
        for prog in progs:
            mode = rng.choice(['iter', 'iter', 'collect', 'drain', 'twice', 'peek-then-all'])
            nt = check_program(S, viol, obs, items_desc, prog, mode)
            if nt == 'hang':
                return {'violations': viol, 'obs': obs, 'exit_after': True}
            if nt:
                sigs.append(hash((case['input'], repr(prog))) & 0xFFFFFFFFFFFF)
            if len(viol) > 4:
                break
        if progs:
            p = progs[len(progs) // 2]
            sample = {'input': items_desc, 'program': p, 'reference': repr(run_ref(realize(items_desc), p))[:300]}
    elif case['kind'] == 'random':
        rng = random.Random(case['seed'])
        for _ in range(case['n_programs']):
            n = rng.choice([0, 1, 3, 8, 20, 40])
            nested = rng.random() < 0.25
            if nested:
                items_desc = [[rng.randrange(100) for _ in range(rng.choice([0, 1, 2, 4]))] for _ in range(n)]
                kind = 'L'
            else:
                items_desc = [rng.randrange(1000) if rng.random() < 0.85 else ['exc', rng.choice(['Boom', 'ValueError', 'KeyError']), [rng.randrange(9)]]
                              for _ in range(n)]
                kind = 'S'
            ops = R.alphabet(max(1, n // 2)) + [['head', 3], ['tail', 5], ['batch', 4], ['buffer', 2], ['parmap', 'f_tag', 3, True, False]]
            prog = []
            for _ in range(rng.randrange(2, 8)):
                cand = [o for o in ops if R.kind_after(kind, o) is not None and o[0] != 'shuffle']
                op = rng.choice(cand)
                prog.append(op)
                kind = R.kind_after(kind, op)
            if rng.random() < 0.1:
                prog.append(['shuffle', rng.choice([1, 3, 100])])
            mode = rng.choice(['iter', 'collect', 'drain', 'twice', 'peek-then-all'])
            nt = check_program(S, viol, obs, items_desc, prog, mode)
            if nt == 'hang':
                return {'violations': viol, 'obs': obs, 'exit_after': True}
            if nt:
                sigs.append(hash((repr(items_desc), repr(prog))) & 0xFFFFFFFFFFFF)
            if sample is None and nt:
                sample = {'input': items_desc[:10], 'program': prog, 'mode': mode}
            if len(viol) > 4:
                break
    elif case['kind'] == 'stalled':
        import time as _time

        rng = random.Random(case['seed'])
        ops = [['map', 'f_tag'], ['buffer', rng.choice([1, 2, 3])], ['buffer', rng.choice([1, 2])], ['parmap', 'f_tag', rng.choice([1, 2]), False, True],
               ['accumulate', 'acc', 'NOTSET'], ['filter', 'p_even'], ['batch', 3], ['peek', 1]]
        prog = [rng.choice(ops) for _ in range(rng.randrange(1, 4))]
        if not any(o[0] in ('buffer', 'parmap') for o in prog):
            prog.insert(rng.randrange(len(prog) + 1), ['buffer', rng.choice([1, 2])])
        items_desc = list(range(rng.choice([12, 30])))
        exp_out, exp_term = run_ref(list(items_desc), prog)

        def slow_source():
            for i, x in enumerate(items_desc):
                if case['who'] == 'source' and i == case['at'] + 4:
                    _time.sleep(case['stall'])
                yield x

        def consume():
            st = S.Stream(slow_source())
            for op in prog:
                st = R.apply_real(st, op)
            out = []
            term = ('END',)
            try:
                for z in st:
                    out.append(norm_exc(z))
                    if case['who'] == 'consumer' and len(out) == case['at']:
                        _time.sleep(case['stall'])
            except Exception as e:  # noqa: BLE001
                term = ('RAISED', norm_exc(e))
            return out, term

        try:
            out, term = watch.run_bounded(consume, BOUND + 5, 'stalled pipeline')
        except watch.Hang as h:
            viol.append({'mech': 'pipeline/hang', 'msg': f'{prog!r} with a {case["stall"]}s {case["who"]} stall did not finish', 'stacks': h.stacks})
            return {'violations': viol, 'obs': obs, 'exit_after': True}
        obs['programs'] += 1
        obs['stalled_runs'] = obs.get('stalled_runs', 0) + 1
        obs['outputs_compared'] += len(exp_out)
        if out != exp_out or term != exp_term:
            missing = [x for x in exp_out if x not in out][:5]
            viol.append({'mech': 'pipeline/differs-from-sequential-meaning', 'msg': f'{"+".join(o[0] for o in prog)} with a {case["stall"]} s {case["who"]} stall after {case["at"]} outputs: '
                         f'{len(out)} outputs {term!r}, reference {len(exp_out)} {exp_term!r}; missing {missing!r}', 'program': prog})
        sigs.append(hash(('stalled', repr(prog), case['stall'], case['who'])) & 0xFFFFFFFFFFFF)
        sample = {'stalled': True, 'program': prog, 'stall_s': case['stall'], 'who': case['who'], 'outputs': len(out)}
    elif case['kind'] == 'hostile-eq':
        # elements whose == is not a yes/no answer about identity: equal to everything (mock.ANY), or element-wise without a truth value
        # (numpy arrays).  Operators that only pass elements on must deliver the very same objects, all of them, in order.
        import asyncio

        import mpservice.streamer._streamer_async as SA
        from vlib.targets import ArrayLike, EqAll

        items = [1, EqAll(1), 2, ArrayLike(2), 'three', EqAll(3), ArrayLike(4), None]
        which = case['carrier']

        def run():
            if which == 'buffer':
                return list(S.Stream(items).buffer(case['size']))
            if which == 'buffer-parmap':
                return list(S.Stream(items).buffer(case['size']).parmap(_same, executor='thread', concurrency=2).buffer(1))
            if which == 'peek-batch-unbatch':
                return list(S.Stream(items).peek(interval=1, print_func=lambda *a: None).batch(3).unbatch())
            if which == 'tee':
                import mpservice.streamer._tee as T

                a, b = T.tee(items, 2, buffer_size=case['size'])
                la = list(a)
                return la if [id(z) for z in la] == [id(z) for z in b] else ['TEE-FORKS-DIFFER']

            async def amain():
                async def asrc():
                    for z in items:
                        yield z

                if which == 'AsyncIter':
                    return [z async for z in SA.AsyncIter(items)]
                if which == 'AsyncIter-of-stream':
                    return [z async for z in SA.AsyncIter(S.Stream(items).buffer(case['size']))]
                if which == 'async-buffer':
                    return [z async for z in SA.AsyncStream(asrc()).buffer(case['size'])]
                if which == 'async-parmap':
                    return [z async for z in SA.AsyncStream(asrc()).parmap(_same_async, concurrency=2)]
                raise ValueError(which)

            if which == 'SyncIter':
                async def asrc2():
                    for z in items:
                        yield z

                return list(SA.SyncIter(asrc2()))
            return asyncio.run(amain())

        term = None
        out = []
        try:
            out = watch.run_bounded(run, BOUND, 'hostile-eq elements')
        except watch.Hang as h:
            viol.append({'mech': 'pipeline/hang', 'msg': f'{which} over elements with unusual == did not finish', 'stacks': h.stacks})
            return {'violations': viol, 'obs': obs, 'exit_after': True}
        except Exception as e:  # noqa: BLE001
            term = e
        obs['programs'] += 1
        obs['hostile_eq_runs'] = obs.get('hostile_eq_runs', 0) + 1
        obs['outputs_compared'] += len(items)
        if term is not None or len(out) != len(items) or any(a is not b for a, b in zip(out, items)):
            viol.append({'mech': 'pipeline/element-compared-with-internal-marker', 'msg': f'{which}(size {case.get("size")}) over {items!r}: '
                         + (f'raised {term!r}' if term is not None else f'delivered {out!r}') + '; these operators only pass elements on'})
        sigs.append(hash(('hostile-eq', which, case.get('size'))) & 0xFFFFFFFFFFFF)
        sample = {'hostile_eq': True, 'carrier': which, 'delivered': len(out)}
    else:  # incremental
        rng = random.Random(case['seed'])
        for _ in range(case['n_programs']):
            ops = [['map', 'f_tag'], ['peek', 1], ['accumulate', 'acc', 'NOTSET'], ['buffer', rng.choice([1, 2, 5])],
                   ['parmap', 'f_tag', rng.choice([1, 2, 4]), rng.random() < 0.5, False], ['filter_exceptions', None, None],
                   ['map', 'f_tag_kw', {'suffix': 'z'}]]
            prog = [rng.choice(ops) for _ in range(rng.randrange(1, 6))]
            k = rng.choice([0, 1, 5, 20])
            allowed = sum(R.lookahead(o) for o in prog)
            src = Source(itertools.count())
            st = S.Stream(src)
            for op in prog:
                st = R.apply_real(st, op)
            built = src.pulls

            def take():
                it = iter(st)
                got = []
                try:
                    for _ in range(k):
                        got.append(next(it))
                    return got, src.pulls
                finally:
                    it.close()

            try:
                got, pulls_at_k = watch.run_bounded(take, BOUND, 'incremental take')
            except watch.Hang as h:
                viol.append({'mech': 'pipeline/hang', 'msg': f'taking {k} of {prog!r} on an unbounded source did not return', 'stacks': h.stacks})
                return {'violations': viol, 'obs': obs, 'exit_after': True}
            obs['incremental_runs'] += 1
            extra = src.pulls - k
            obs['max_extra_pulls_minus_allowed'] = max(obs['max_extra_pulls_minus_allowed'], extra - allowed)
            if built:
                viol.append({'mech': 'pipeline/eager-construction', 'msg': f'building {prog!r} pulled from the source'})
            if extra > allowed:
                viol.append({'mech': 'pipeline/not-incremental', 'msg': f'took {k} outputs of {prog!r}: source pulled {src.pulls} > {k}+{allowed}'})
            exp = list(itertools.islice(_refchain(prog), k))
            if [norm_exc(g) for g in got] != [norm_exc(e) for e in exp]:
                viol.append({'mech': 'pipeline/differs-from-sequential-meaning', 'msg': f'first {k} of {prog!r}: {got!r} vs {exp!r}'})
            sigs.append(hash(('inc', repr(prog), k)) & 0xFFFFFFFFFFFF)
            if sample is None:
                sample = {'incremental': True, 'program': prog, 'take': k, 'source_pulls': src.pulls, 'allowed_lookahead': allowed}
    return {'violations': viol, 'obs': obs, 'sigs': sigs, 'nontrivial': bool(sigs), 'sample': sample}


def _refchain(prog):
    g = itertools.count()
    for op in prog:
        g = R.apply_ref(g, op)
    return g


def decide_inconclusive(obs, results, cases):
    if obs.get('programs_ending_in_exception', 0) == 0 or obs.get('incremental_runs', 0) == 0:
        return 'no program ended in an exception / no incremental run was observed'
    return None
