"""C02 — Server answers every request with its own result (no cross-talk)."""
from __future__ import annotations

import asyncio
import gc
import random
import shutil
import tempfile
import threading
import time

from vlib import targets, schedfuzz, srvharness as SH, watch

PROPERTY = 'C02'
LEVEL = 'exploration'
RULE = ('server lifetimes: servlet tree drawn from a grammar (thread/process leaves with 1-3 workers and batch 0/1/3, Sequential, Ensemble '
        'fail_fast +/-, Switch; depth<=2) x capacity x 1-6 concurrent callers mixing call() and stream(return_x=True) x per-request plans '
        '(fail / reject / sleep / poisoned batch at a chosen leaf, short deadlines) x id() allocation policy (natural, fresh, LIFO, FIFO, random '
        'reuse) x sync/async server, under the schedule fuzzer; every outcome is matched against the reference interpretation of the request\'s own '
        'token; non-trivial = lifetime with >=2 callers and >=1 failing or timed-out request; distinct = distinct (tree, capacity, callers, seed)')
ASSUMPTIONS = ['TimeoutError is a legal outcome only for requests issued with a deadline <= 0.25 s',
               'the adversarial id() returns only values CPython could return (unique among live objects)',
               'fail-fast ensemble errors are matched structurally: every recorded member result must be this request\'s own']
CASE_TIMEOUT = 240
PARALLEL = 14
GROUP = 1
BOUND = 90


def gen_cases(tier, seed):
    rng = random.Random(seed)
    cases = []
    n = 70 if tier == 'quick' else 1500
    for i in range(n):
        r = random.Random(rng.randrange(1 << 30))
        tree = SH.random_tree(r, depth=2, allow_process=(i % 5 == 0), max_leaves=4)
        if i % 7 == 3:
            # the cross-talk shape: fail-fast ensemble with a slow and a failing member
            tree = ['Ens', True, [['T', 'A', 1, 0, {}], ['T', 'B', r.choice([1, 2]), 0, {}]]]
        xtalk = i % 7 == 3
        cases.append({'tree': tree, 'xtalk': xtalk, 'capacity': r.choice([1, 2, 4, 16, 64]), 'callers': r.choice([1, 2, 3, 4, 6]) if not xtalk else r.choice([1, 2]),
                      'per_caller': r.choice([10, 25, 60]) if not SH.has_process(tree) else r.choice([8, 20]),
                      'advid': r.choice([None, 'lifo', 'lifo', 'fifo', 'random', 'fresh']) if not xtalk else r.choice(['lifo', 'lifo', 'random']),
                      'mode': 'async' if i % 4 == 1 else 'sync', 'fuzz': r.random() < 0.8, 'seed': r.randrange(1 << 30)})
    # the id-recycling shape again, on both servers, enough times that an allocator-dependent fault does not slip through a single schedule
    for i in range(28 if tier == 'quick' else 112):
        r = random.Random(rng.randrange(1 << 30))
        cases.append({'tree': ['Ens', True, [['T', 'A', 1, 0, {}], ['T', 'B', r.choice([1, 2]), 0, {}]]], 'xtalk': True, 'capacity': r.choice([1, 2, 4, 16]), 'callers': r.choice([1, 2]),
                      'per_caller': r.choice([40, 60]), 'advid': r.choice(['lifo', 'lifo', 'random']), 'mode': 'async' if i % 7 < 4 else 'sync', 'fuzz': r.random() < 0.8, 'seed': r.randrange(1 << 30)})
    # composites inside composites (the random trees rarely nest an ensemble in an ensemble), and two servers alive in one process
    # at the same time (the second one started, stopped and started again while the first is serving)
    T = lambda tag, n=1, b=0: ['T', tag, n, b, {}]  # noqa: E731
    nested = [
        ['Ens', False, [['Ens', False, [T('A'), T('B', 2)]], T('C')]],
        ['Ens', True, [['Ens', False, [T('A'), T('B')]], ['Ens', True, [T('C'), T('D')]]]],
        ['Ens', False, [['Seq', [T('A'), ['Ens', False, [T('B'), T('C')]]]], T('D', 2)]],
        ['Seq', [['Ens', False, [T('A'), T('B')]], ['Ens', True, [T('C', 2), T('D')]]]],
        ['Sw', [['Ens', False, [T('A'), T('B')]], ['Ens', False, [T('C'), T('D')]]]],
        ['Ens', False, [['Sw', [T('A'), ['Ens', True, [T('B'), T('C')]]]], T('D', 1, 3)]],
        ['Seq', [['Sw', [T('A'), T('B')]], ['Sw', [T('C'), T('D')]]]],
        ['Sw', [['Sw', [T('A'), T('B')]], ['Seq', [T('C'), T('D')]]]],
    ]
    for i in range(len(nested) * (1 if tier == 'quick' else 10)):
        r = random.Random(rng.randrange(1 << 30))
        cases.append({'tree': nested[i % len(nested)], 'xtalk': False, 'capacity': r.choice([2, 4, 16]), 'callers': r.choice([2, 3, 4]), 'per_caller': r.choice([10, 25]),
                      'advid': r.choice([None, 'lifo', 'random']), 'mode': 'async' if i % 3 == 1 else 'sync', 'fuzz': r.random() < 0.5, 'seed': r.randrange(1 << 30)})
    # several worker processes answering at the same time with results far above PIPE_BUF (4 KiB) and above the pipe's capacity (64 KiB):
    # many writers on one output pipe, messages that do not fit one write
    P = lambda tag, n=1, b=0: ['P', tag, n, b, {}]  # noqa: E731
    bigtrees = [P('A', 3), ['Sw', [P('A', 2), P('B', 1)]], ['Seq', [T('A', 3), P('B', 2)]], ['Ens', False, [P('A', 2), P('B', 2)]]]
    for i in range(4 if tier == 'quick' else 24):
        r = random.Random(rng.randrange(1 << 30))
        cases.append({'tree': bigtrees[i % len(bigtrees)], 'xtalk': False, 'capacity': 32, 'callers': 8, 'per_caller': 6, 'advid': None, 'pad': [6000, 150_000, 20_000, 1_000_000][(i // 4 + i) % 4],
                      'mode': 'async' if i % 4 == 3 else 'sync', 'fuzz': False, 'seed': r.randrange(1 << 30)})
    twins = [['Ens', False, [T('A'), T('B')]], ['Seq', [T('A'), T('B', 1, 3)]], ['Sw', [T('A'), T('B')]], ['Ens', True, [T('A'), ['Seq', [T('B'), T('C')]]]], T('A', 2, 3)]
    for i in range(10 if tier == 'quick' else 100):
        r = random.Random(rng.randrange(1 << 30))
        tree = twins[i % len(twins)]
        cases.append({'tree': tree, 'twin_tree': tree if i % 2 == 0 else twins[(i + 1) % len(twins)], 'twin_mode': 'async' if i % 4 >= 2 else 'sync', 'xtalk': False,
                      'capacity': r.choice([2, 4, 16]), 'callers': r.choice([2, 3]), 'per_caller': r.choice([25, 40]), 'advid': None,
                      'mode': 'async' if i % 3 == 1 else 'sync', 'fuzz': False, 'seed': r.randrange(1 << 30)})
    return cases


_PADS = {}


def make_requests(rng, tree, client, n, xtalk=False, pad=0):
    if pad:
        # plain successful requests whose results are big (the stage's result carries its input)
        p = _PADS.setdefault(pad, 'x' * pad)
        return [(('tok', client, s, (('_', 'pad', p),)), 60) for s in range(n)]
    lv = SH.leaves(tree)
    sw = SH.has_switch(tree)
    reqs = []
    for s in range(n):
        if xtalk:
            # fail-fast ensemble: member A fails at once while member B is still busy with the same request;
            # the next request follows immediately (its id may be the one just released)
            plan = [('A', 'fail', None), ('B', 'sleep', rng.choice([0.002, 0.005]))] if s % 2 == 0 else []
            reqs.append((('tok', client, s, tuple(plan)), 30))
            continue
        plan = []
        r = rng.random()
        leaf = rng.choice(lv)
        if r < 0.12:
            plan.append((leaf[1], 'poison' if leaf[3] else 'fail', None if leaf[3] else rng.choice([None, None, 'TimeoutError', 'MpTimeout', 'queue.Empty', 'KeyError', 'EOFError', 'BrokenPipeError'])))
        elif r < 0.17:
            plan.append((leaf[1], 'reject', None))
        if rng.random() < 0.25:
            plan.append((rng.choice(lv)[1], 'sleep', rng.choice([0.0005, 0.002, 0.008])))
        if sw and rng.random() < 0.06:
            plan.append(('SW', rng.choice(['unroutable', 'unroutable', 'badindex']), None))  # the user's switch() fails for this input
        if not plan and not leaf[3] and rng.random() < 0.03:
            plan.append((leaf[1], 'return-exc', None))  # the worker RETURNS an exception object (never raised: no traceback)
        if rng.random() < 0.03:
            # an input that cannot be pickled: fine between threads, a failure of this one request at the first process boundary
            plan.append(('_', 'unpicklable', targets.UNPICKLABLE))
        deadline = 30
        if rng.random() < 0.06:
            deadline = rng.choice([0.0005, 0.003, 0.02])
            plan.append((rng.choice(lv)[1], 'sleep', 0.01))
        reqs.append((('tok', client, s, tuple(plan)), deadline))
        for t, a, _ in plan:
            if a == 'poison':
                SH.POISONERS.setdefault(t, set()).add((client, s))
    return reqs


def judge(tree, tok, deadline, outcome, viol, obs, where):
    from mpservice._common import TimeoutError as MpTimeout

    obs['requests'] += 1
    exp = SH.interpret(tree, tok, tok)
    own_error = isinstance(outcome, BaseException) and len(outcome.args) == 2 and outcome.args[1] == (tok[1], tok[2])  # raised by the worker for this request
    if isinstance(outcome, (MpTimeout, TimeoutError)) and not own_error:
        if deadline <= 0.25:
            obs['timeouts_short_deadline'] += 1
            return
        viol.append({'mech': 'server/lost-response', 'msg': f'{where}: request {tok[:3]} with deadline {deadline}s timed out (no outcome delivered)'})
        return
    got = SH.norm_outcome(outcome)
    if SH._is_exc_got(got) and got[1] == 'ServerBacklogFull' and len(got[2]) == 2 and got[2][1] is not None and deadline <= 0.25:
        obs['timeouts_short_deadline'] += 1  # waited for room no longer than its (short) timeout: legal
        return
    if SH._is_exc_got(got):
        obs['failed_requests'] += 1
    ok, exp = SH.judge_outcome(tree, tok, got)
    if not ok and any(a == 'unpicklable' for _, a, _ in tok[3]) and SH.has_process(tree) and "'PicklingError', ('vf-unpicklable',)" in repr(got):
        # somewhere on its way the request met a process boundary; where exactly depends on the queue types the tree was wired with
        obs['unpicklable_inputs_failed_alone'] = obs.get('unpicklable_inputs_failed_alone', 0) + 1
        return
    if not ok:
        mech = 'server/wrong-outcome'
        other = _foreign_ids(got, (tok[1], tok[2]))
        if other:
            mech = 'server/cross-talk'
        viol.append({'mech': mech, 'msg': f'{where}: request {tok[:3]} plan {tok[3]} got {got!r}'[:700] + f' ; expected {exp!r}'[:400],
                     'foreign_request_ids': other})


def _foreign_ids(got, own):
    found = set()

    def walk(v):
        if isinstance(v, tuple) and len(v) == 4 and v[0] == 'tok':
            if (v[1], v[2]) != own:
                found.add((v[1], v[2]))
            return
        if isinstance(v, (tuple, list)):
            if len(v) >= 3 and v[0] == 'EXC' and v[1] == 'BatchBoom':
                return  # a batch error legitimately names the whole batch
            for a in v:
                walk(a)

    walk(got)
    return sorted(found)[:5]


def run_sync(case, tree, servlet, viol, obs, shadow_box, fz):
    from mpservice.mpserver import Server

    rng = random.Random(case['seed'])
    server = Server(servlet, capacity=case['capacity'])
    shadow_box.append(SH.install_ledger_shadow(server))
    plans = [make_requests(rng, tree, c + case.get('client_base', 0), case['per_caller'], case.get('xtalk'), case.get('pad', 0)) for c in range(case['callers'])]
    lock = threading.Lock()

    def caller(c):
        reqs = plans[c]
        use_stream = c % 3 == 2
        if use_stream:
            toks = [t for t, _ in reqs]
            k = 0
            try:
                for x, y in server.stream(iter(toks), return_x=True, return_exceptions=True, timeout=30):
                    with lock:
                        if x != toks[k]:
                            viol.append({'mech': 'server/stream-order', 'msg': f'stream position {k}: yielded input {x[:3]} expected {toks[k][:3]}'})
                        judge(tree, toks[k], 30, y, viol, obs, 'stream')
                    k += 1
            except Exception as e:  # noqa: BLE001
                with lock:
                    viol.append({'mech': 'server/stream-raised', 'msg': f'stream with return_exceptions=True raised {e!r} at position {k}'})
            with lock:
                if k != len(toks) and not any(v['mech'] == 'server/stream-raised' for v in viol):
                    viol.append({'mech': 'server/stream-count', 'msg': f'stream yielded {k} outcomes for {len(toks)} inputs'})
        else:
            for tok, dl in reqs:
                if dl == 30 and tok[2] % 23 == 7:
                    # the input IS an exception object that was never raised: it is short-circuited as this request's failure
                    ein = targets.Boom('as-input', tok[1], tok[2])
                    try:
                        y = server.call(ein, timeout=dl, backpressure=False)
                    except BaseException as e:  # noqa: BLE001
                        y = e
                    with lock:
                        obs['requests'] += 1
                        obs['exception_objects_as_input'] = obs.get('exception_objects_as_input', 0) + 1
                        if not (isinstance(y, targets.Boom) and y.args == ('as-input', tok[1], tok[2])):
                            mech = 'server/lost-response' if isinstance(y, TimeoutError) else 'server/wrong-outcome'
                            viol.append({'mech': mech, 'msg': f'call: an exception object passed as input ({ein!r}) came back as {y!r}; expected that exception raised'})
                try:
                    y = server.call(tok, timeout=dl, backpressure=False)
                except BaseException as e:  # noqa: BLE001
                    y = e
                with lock:
                    judge(tree, tok, dl, y, viol, obs, 'call')
                if case.get('xtalk'):
                    y = None
                    gc.collect()  # a collection may run at any time: the failed future (in a traceback cycle) is released now

    with server:
        with fz:
            ths = [threading.Thread(target=caller, args=(c,), name=f'caller-{c}') for c in range(case['callers'])]
            for t in ths:
                t.start()
            for t in ths:
                t.join()
    return server


def run_async(case, tree, servlet, viol, obs, shadow_box, fz):
    from mpservice.mpserver import AsyncServer

    rng = random.Random(case['seed'])
    plans = [make_requests(rng, tree, c + case.get('client_base', 0), case['per_caller'], case.get('xtalk'), case.get('pad', 0)) for c in range(case['callers'])]

    async def main():
        server = AsyncServer(servlet, capacity=case['capacity'])
        shadow_box.append(SH.install_ledger_shadow(server))

        async def caller(c):
            reqs = plans[c]
            if c % 3 == 2:
                toks = [t for t, _ in reqs]

                async def src():
                    for t in toks:
                        yield t

                k = 0
                try:
                    async for x, y in server.stream(src(), return_x=True, return_exceptions=True, timeout=30):
                        if x != toks[k]:
                            viol.append({'mech': 'server/stream-order', 'msg': f'async stream position {k}: yielded input {x[:3]} expected {toks[k][:3]}'})
                        judge(tree, toks[k], 30, y, viol, obs, 'astream')
                        k += 1
                except Exception as e:  # noqa: BLE001
                    viol.append({'mech': 'server/stream-raised', 'msg': f'async stream with return_exceptions=True raised {e!r} at position {k}'})
                if k != len(toks) and not any(v['mech'] == 'server/stream-raised' for v in viol):
                    viol.append({'mech': 'server/stream-count', 'msg': f'async stream yielded {k} outcomes for {len(toks)} inputs'})
            else:
                for tok, dl in reqs:
                    try:
                        y = await server.call(tok, timeout=dl, backpressure=False)
                    except Exception as e:  # noqa: BLE001
                        y = e
                    judge(tree, tok, dl, y, viol, obs, 'acall')
                    if case.get('xtalk'):
                        y = None
                        gc.collect()

        async with server:
            with fz:
                await asyncio.gather(*[caller(c) for c in range(case['callers'])])
        return server

    return asyncio.run(main())


def run_case(case):
    import mpservice.mpserver._server as SV

    tree = case['tree']
    viol = []
    obs = {'lifetimes': 1, 'requests': 0, 'failed_requests': 0, 'timeouts_short_deadline': 0, 'ledger_inserts': 0, 'ledger_misses': 0,
           'id_reuses': 0, 'process_lifetimes': 1 if SH.has_process(tree) else 0}
    log_dir = tempfile.mkdtemp(prefix='vf-c02-')
    adv = None
    if case['advid']:
        adv = SH.AdvId(case['advid'], case['seed']).install(SV)
    fz = schedfuzz.SchedFuzz(seed=case['seed'], p=0.02, changepoints=2, changepoint_delay=0.01) if case['fuzz'] else schedfuzz.NullFuzz()
    SH.fuzz_targets(fz)
    dr = watch.DeathRecorder().install()
    shadow_box = []
    try:
        servlet = SH.build(tree, log_dir=None, fuzz_child=(case['seed'] % 1000 + 1) if case['fuzz'] else None)
        fn = run_async if case['mode'] == 'async' else run_sync
        body = lambda: fn(case, tree, servlet, viol, obs, shadow_box, fz)  # noqa: E731
        if case.get('twin_tree'):
            # a second server lives in the same process: started a little later, stopped and started again while the first one serves
            case_b = dict(case, seed=case['seed'] + 1, client_base=100, per_caller=max(4, case['per_caller'] // 4), mode=case['twin_mode'])
            viol_b, obs_b, shadow_b = [], dict.fromkeys(obs, 0), []
            fn_b = run_async if case_b['mode'] == 'async' else run_sync

            def twin():
                time.sleep(0.02)
                for _ in range(3):
                    fn_b(case_b, case['twin_tree'], SH.build(case['twin_tree'], log_dir=None), viol_b, obs_b, shadow_b, schedfuzz.NullFuzz())
                    obs_b['lifetimes'] += 1

            def body():  # noqa: F811
                th = threading.Thread(target=twin, name='twin-server')
                th.start()
                try:
                    fn(case, tree, servlet, viol, obs, shadow_box, fz)
                finally:
                    th.join()
                for v in viol_b:
                    v['msg'] = '[second server in the same process] ' + v['msg']
                viol.extend(viol_b)
                for k_, v_ in obs_b.items():
                    if isinstance(v_, int) and k_ != 'process_lifetimes':
                        obs[k_] = obs.get(k_, 0) + v_
                obs['twin_lifetimes'] = obs_b['lifetimes']
        try:
            watch.run_bounded(body, BOUND, 'server lifetime')
        except watch.Hang as h:
            viol.append({'mech': 'server/hang', 'msg': 'server lifetime (enter, serve all callers, exit) did not finish; stacks stable', 'stacks': h.stacks})
            return {'violations': viol, 'obs': obs, 'exit_after': True, 'fuzz': fz.stats()}
        except watch.Inconclusive as e:
            return {'violations': viol, 'obs': obs, 'inconclusive': str(e), 'exit_after': True}
    finally:
        if adv:
            adv.uninstall()
            obs['id_reuses'] = adv.reuses
        dr.uninstall()
        shutil.rmtree(log_dir, ignore_errors=True)
    sh = shadow_box[0] if shadow_box else None
    if sh is not None:
        obs['ledger_inserts'] = sh.inserts
        obs['ledger_misses'] = len(sh.misses)
        if sh.misses:
            viol.append({'mech': 'server/result-for-unknown-id', 'msg': f'{len(sh.misses)} results arrived for ids not in the backlog ledger (lost or duplicated responses); first: {sh.misses[:3]}'})
        if sh.collisions:
            viol.append({'mech': 'server/request-id-collision', 'msg': f'{len(sh.collisions)} requests were recorded under an id that was still in use; first: {sh.collisions[:3]}'})
    deaths = [d for d in dr.snapshot() if 'InitBoom' not in d.get('exc', '')]
    if deaths:
        viol.append({'mech': 'server/helper-thread-died', 'msg': f'{deaths[0]}'[:800]})
    nontrivial = case['callers'] >= 2 and (obs['failed_requests'] + obs['timeouts_short_deadline']) >= 1
    res = {'violations': viol[:6], 'obs': obs, 'nontrivial': nontrivial, 'sig': hash((repr(tree), case['capacity'], case['callers'], case['seed'])) & 0xFFFFFFFFFFFF,
           'sample': {'tree': tree, 'capacity': case['capacity'], 'callers': case['callers'], 'mode': case['mode'], 'advid': case['advid'],
                      'requests': obs['requests'], 'failed': obs['failed_requests'], 'timeouts': obs['timeouts_short_deadline'],
                      'ledger_max': sh.max_len if sh else None, 'id_reuses': obs['id_reuses']}}
    if case['fuzz']:
        res['fuzz'] = fz.stats()
    if viol or SH.has_process(tree):
        res['exit_after'] = True
    return res


def decide_inconclusive(obs, results, cases):
    if obs.get('requests', 0) == 0 or obs.get('failed_requests', 0) == 0:
        return 'no request / no failing request was observed'
    return None


RULE = RULE + "; fixed nested-composite trees; twin servers in one process; requests the user's switch() cannot route; unpicklable inputs; failing calls raise 8 exception classes incl. the TimeoutError family"
