"""C20 — child-process log records all reach the parent, once and in order; heavy logging never blocks exit."""
from __future__ import annotations

import logging
import random
import threading
import time

from vlib import targets, watch

PROPERTY = 'C20'
LEVEL = 'fault_enumeration'
RULE = ('enumeration: number of records {0, 1, 4, 300, 2000, 20000} x record size {10 B, 100 B, 2 kB, 70 kB (fewer records)} x ending {return, raise, sys.exit} '
        'x last record immediately before the end / after a pause x parent level {DEBUG, WARNING} x carrier {Process, ProcessServlet worker logging in '
        'cleanup (end-of-life burst), mpservice ProcessPoolExecutor task}. Records carry sequence numbers; the parent root handler records what it '
        'handles; after join()/result() the sequence handled must equal the sequence emitted filtered by the parent level. '
        'non-trivial = >=300 records or a record emitted right before the end; distinct = distinct case tuples; parent level set on the root logger, on a named ancestor logger or on the handler')
ASSUMPTIONS = ['join()/result() are bounded by 60 s (typical < 2 s) AND three identical stack samples => hang',
               'after join() the check waits (<= 10 s) until the expected count is handled or the parent logger thread of that process has ended; records '
               'missing once that thread has finished are a definitive loss']
CASE_TIMEOUT = 180
PARALLEL = 12
BOUND = 60
EXHAUSTIVE = {'quick': False, 'thorough': True}


def gen_cases(tier, seed):
    rng = random.Random(seed)
    cases = []
    for n in (0, 1, 4, 300, 2000, 20000):
        for size in (10, 100, 2000, 70000):
            if n * size > 60_000_000:
                continue
            for ending in ('return', 'raise', 'exit'):
                for pause in (0, 0.05):
                    for lvl in ('DEBUG', 'WARNING'):
                        cases.append({'carrier': 'process', 'n': n, 'size': size, 'ending': ending, 'pause': pause, 'parent_level': lvl,
                                      'levels': lvl == 'WARNING', 'threads': 1})
    for n in (40, 400, 4000):
        cases.append({'carrier': 'process', 'n': n, 'size': 200, 'ending': 'return', 'pause': 0, 'parent_level': 'DEBUG', 'levels': False, 'threads': 4})
    # the parent's level settings may sit on a named logger or on the handler, not only on the root logger
    for n in (8, 400):
        for ending in ('return', 'raise'):
            cases.append({'carrier': 'process', 'n': n, 'size': 50, 'ending': ending, 'pause': 0, 'parent_level': 'DEBUG', 'levels': True, 'threads': 1, 'named_logger_level': 'ERROR'})
            cases.append({'carrier': 'process', 'n': n, 'size': 50, 'ending': ending, 'pause': 0, 'parent_level': 'DEBUG', 'levels': True, 'threads': 1, 'handler_level': 'WARNING'})
            cases.append({'carrier': 'process', 'n': n, 'size': 50, 'ending': ending, 'pause': 0, 'parent_level': 'ERROR', 'levels': True, 'threads': 1, 'named_logger_level': 'INFO'})
    # records that carry application context which cannot be pickled (extra={'conn': <lock>}), or exception info
    for n in (8, 400):
        for ending in ('return', 'raise'):
            cases.append({'carrier': 'process', 'n': n, 'size': 50, 'ending': ending, 'pause': 0, 'parent_level': 'DEBUG', 'levels': False, 'threads': 1, 'rich': True})
    # a child that is silent for several seconds and logs only then (more than the pipe holds / a few records)
    for n, size in ((4, 50), (150, 2000)):
        cases.append({'carrier': 'process', 'n': n, 'size': size, 'ending': 'return', 'pause': 0, 'parent_level': 'DEBUG', 'levels': False, 'threads': 1, 'silence_first': 6.5})
    extra = []
    for n in (5, 300, 3000):
        for w in (1, 2):
            extra.append({'carrier': 'servlet', 'n': n, 'size': 100, 'workers': w, 'parent_level': 'DEBUG'})
        extra.append({'carrier': 'pool', 'n': n, 'size': 100, 'parent_level': 'DEBUG'})
    # whole parent programs that end right after join()/result(): nothing may be left to a logger thread that dies with the interpreter
    for acc in ('join', 'result', 'result-timeout'):
        for daemon in (True, False):
            for ending in (('return',) if tier == 'quick' else ('return', 'raise', 'exit')):
                extra.append({'carrier': 'parent-program', 'n': 150 if tier == 'quick' else 400, 'size': 60, 'ending': ending, 'accessor': acc, 'daemon': daemon,
                              'handler_delay': 0.003, 'parent_level': 'DEBUG'})
    if tier == 'quick':
        rng.shuffle(cases)
        lv = [c for c in cases if c.get('named_logger_level') or c.get('handler_level') or c.get('rich') or c.get('silence_first')]
        cases = [c for c in cases if c not in lv]
        big = [c for c in cases if c['n'] >= 2000][:14]
        small = [c for c in cases if c['n'] < 2000][:46]
        cases = big + small + extra[:6] + [c for c in extra if c['carrier'] == 'parent-program'] + lv
    else:
        cases = cases + extra
    rng.shuffle(cases)
    return cases


class Recorder(logging.Handler):
    def __init__(self):
        super().__init__(level=logging.NOTSET)
        self.records = []
        self.mu = threading.Lock()

    def emit(self, record):
        msg = record.getMessage()
        with self.mu:
            self.records.append((record.name, record.levelno, msg[:40]))


def expected_records(spec, parent_level, named=None, handler=None):
    out = []
    levels = [logging.DEBUG, logging.INFO, logging.WARNING, logging.ERROR]
    # effective level of logger 'vf.child': the nearest explicitly set level on the way to the root; then the handler's own level
    plv = getattr(logging, named) if named else getattr(logging, parent_level)
    if handler:
        plv = max(plv, getattr(logging, handler))
    nthreads = spec.get('threads', 1)
    if nthreads > 1:
        per = spec['n'] // nthreads
        for th in range(nthreads):
            for i in range(per):
                out.append((th, i))
        return out, True
    for i in range(spec['n']):
        lvl = levels[i % 4] if spec.get('levels') else logging.WARNING
        if lvl >= plv:
            out.append((0, i))
    return out, False


def run_case(case):
    import mpservice.multiprocessing as mm

    viol = []
    obs = {'cases': 1, 'records_expected': 0, 'records_handled': 0, 'end_of_life_records': 0}
    root = logging.getLogger()
    rec = Recorder()
    old_level = root.level
    old_handlers = list(root.handlers)
    for h in old_handlers:
        root.removeHandler(h)
    root.addHandler(rec)
    root.setLevel(getattr(logging, case['parent_level']))
    logging.getLogger('vf').setLevel(getattr(logging, case['named_logger_level']) if case.get('named_logger_level') else logging.NOTSET)
    if case.get('handler_level'):
        rec.setLevel(getattr(logging, case['handler_level']))
    t0 = time.monotonic()
    try:
        if case['carrier'] == 'process':
            spec = {'n': case['n'], 'size': case['size'], 'ending': case['ending'], 'levels': case['levels'], 'threads': case['threads'],
                    'pause_before_end': case['pause'], 'rich': case.get('rich', False), 'silence_first': case.get('silence_first', 0)}
            p = mm.Process(target=targets.c20_target, args=(spec,))
            p.start()

            def finish():
                try:
                    return ('ok', p.result())
                except BaseException as e:  # noqa: BLE001
                    return ('exc', e)

            try:
                outcome = watch.run_bounded(finish, BOUND, 'Process.result() of a logging child')
            except watch.Hang as h:
                viol.append({'mech': 'logging/join-hangs', 'msg': f'result() did not return for a child that logged {case["n"]} x {case["size"]} B records and ended by {case["ending"]}; '
                             f'child alive: {p.is_alive()}', 'stacks': h.stacks})
                try:
                    p.kill()
                except Exception:
                    pass
                return {'violations': viol, 'obs': obs, 'exit_after': True, 'nontrivial': True, 'sig': repr(sorted(case.items()))}
            want_kind = {'return': 'ok', 'raise': 'exc', 'exit': 'exc'}[case['ending']]
            if outcome[0] != want_kind:
                viol.append({'mech': 'logging/wrong-outcome', 'msg': f'child ending {case["ending"]} reported as {outcome!r}'})
            exp, unordered = expected_records(spec, case['parent_level'], case.get('named_logger_level'), case.get('handler_level'))
            lt = getattr(p, '_logger_thread_', None)
            deadline = time.monotonic() + 10
            while time.monotonic() < deadline:
                with rec.mu:
                    got_n = sum(1 for r in rec.records if r[0] == 'vf.child')
                if got_n >= len(exp) or (lt is not None and not lt.is_alive()):
                    break
                time.sleep(0.01)
            time.sleep(0.02)
            with rec.mu:
                got = [tuple(int(v) for v in r[2].split()[1:3]) for r in rec.records if r[0] == 'vf.child']
            obs['records_expected'] = len(exp)
            obs['records_handled'] = len(got)
            if case['pause'] == 0 and case['n'] > 0:
                obs['end_of_life_records'] = 1
            judge_sequence(viol, exp, got, unordered, f'{case["n"]} x {case["size"]} B, ending {case["ending"]}')
        elif case['carrier'] == 'servlet':
            from mpservice.mpserver import ProcessServlet, Server
            from vlib.srvtargets import TagWorker

            def life():
                with Server(ProcessServlet(TagWorker, cpus=[None] * case['workers'], tag='A', cleanup_logs=case['n']), capacity=16) as s:
                    for i in range(5):
                        s.call(('tok', 0, i, ()), timeout=30)

            try:
                watch.run_bounded(life, BOUND, 'server lifetime with workers logging in cleanup')
            except watch.Hang as h:
                viol.append({'mech': 'logging/server-exit-hangs', 'msg': f'server exit did not return; workers log {case["n"]} records in cleanup', 'stacks': h.stacks})
                return {'violations': viol, 'obs': obs, 'exit_after': True, 'nontrivial': True, 'sig': repr(sorted(case.items()))}
            time.sleep(0.3)
            with rec.mu:
                got = [r[2].split() for r in rec.records if r[0] == 'vf.worker']
            obs['records_expected'] = case['n'] * case['workers']
            obs['records_handled'] = len(got)
            obs['end_of_life_records'] = 1
            for w in range(case['workers']):
                seq = [(0, int(g[3])) for g in got if int(g[2]) == w]
                judge_sequence(viol, [(0, i) for i in range(case['n'])], seq, False, f'worker {w} cleanup burst of {case["n"]}')
        elif case['carrier'] == 'parent-program':
            # a whole parent program that waits with join()/result() and then ends at once; its (slow) handler appends to a file
            import json
            import os
            import subprocess
            import sys
            import tempfile

            spec = {'n': case['n'], 'size': case['size'], 'ending': case['ending'], 'levels': False, 'threads': 1}
            tmp = tempfile.mkdtemp(prefix='vf-c20-')
            outp = os.path.join(tmp, 'handled.log')
            cfg = {'out': outp, 'spec': spec, 'accessor': case['accessor'], 'daemon': case['daemon'], 'handler_delay': case['handler_delay']}
            try:
                pr = subprocess.run([sys.executable, '-m', 'vlib.targets', 'c20-parent', json.dumps(cfg)], timeout=BOUND + case['n'] * case['handler_delay'] * 3,
                                    capture_output=True, text=True, env=dict(os.environ))
                rc = pr.returncode
            except subprocess.TimeoutExpired:
                viol.append({'mech': 'logging/parent-program-never-ends', 'msg': f'a parent program that waits with {case["accessor"]}() for a child logging {case["n"]} records did not end'})
                return {'violations': viol, 'obs': obs, 'exit_after': True, 'nontrivial': True, 'sig': repr(sorted(case.items()))}
            lines = open(outp).read().splitlines() if os.path.exists(outp) else []
            import shutil

            shutil.rmtree(tmp, ignore_errors=True)
            outcome = [ln for ln in lines if ln.startswith('OUTCOME')]
            if not outcome:
                return {'violations': viol, 'obs': obs, 'inconclusive': f'parent program gave no outcome (rc {rc}): {pr.stderr[-300:]}', 'exit_after': True}
            got = [tuple(int(v) for v in ln.split()[2:4]) for ln in lines if ln.startswith('vf.child rec')]
            obs['records_expected'] = case['n']
            obs['records_handled'] = len(got)
            obs['end_of_life_records'] = 1
            obs['parent_programs'] = 1
            judge_sequence(viol, [(0, i) for i in range(case['n'])], got, False,
                           f'parent program ({case["accessor"]}(), daemon={case["daemon"]}, handler {case["handler_delay"] * 1000:.0f} ms/record) ending right after the wait; child logged {case["n"]}')
        else:  # pool
            from mpservice.concurrent.futures import ProcessPoolExecutor

            spec = {'n': case['n'], 'size': case['size'], 'ending': 'return', 'levels': False, 'threads': 1}

            def life():
                with ProcessPoolExecutor(1) as ex:
                    ex.submit(targets.ident, 1).result()
                    return ex.submit(targets.c20_target, spec).result()

            try:
                watch.run_bounded(life, BOUND, 'process pool task that logs')
            except watch.Hang as h:
                viol.append({'mech': 'logging/pool-shutdown-hangs', 'msg': 'pool shutdown did not return', 'stacks': h.stacks})
                return {'violations': viol, 'obs': obs, 'exit_after': True, 'nontrivial': True, 'sig': repr(sorted(case.items()))}
            time.sleep(0.3)
            with rec.mu:
                got = [tuple(int(v) for v in r[2].split()[1:3]) for r in rec.records if r[0] == 'vf.child']
            obs['records_expected'] = case['n']
            obs['records_handled'] = len(got)
            obs['end_of_life_records'] = 1
            judge_sequence(viol, [(0, i) for i in range(case['n'])], got, False, f'pool task logging {case["n"]} records then shutdown')
    finally:
        logging.getLogger('vf').setLevel(logging.NOTSET)
        root.removeHandler(rec)
        for h in old_handlers:
            root.addHandler(h)
        root.setLevel(old_level)
    nontrivial = case['n'] >= 300 or case.get('pause') == 0 or case['carrier'] == 'parent-program'
    return {'violations': viol[:4], 'obs': obs, 'nontrivial': nontrivial, 'sig': repr(sorted(case.items())), 'exit_after': True,
            'sample': dict(case, handled=obs['records_handled'], expected=obs['records_expected'], seconds=round(time.monotonic() - t0, 2))}


def judge_sequence(viol, exp, got, unordered, what):
    if unordered:
        # several emitting threads: per-thread order and exactly-once
        if sorted(got) != sorted(exp):
            missing = len(set(exp) - set(got))
            dup = len(got) - len(set(got))
            viol.append({'mech': 'logging/records-lost' if missing else 'logging/records-duplicated', 'msg': f'{what}: {missing} records missing, {dup} duplicated of {len(exp)}'})
            return
        for th in {t for t, _ in exp}:
            seq = [i for t, i in got if t == th]
            if seq != sorted(seq):
                viol.append({'mech': 'logging/records-out-of-order', 'msg': f'{what}: records of emitting thread {th} handled out of order'})
                return
        return
    if got == exp:
        return
    if len(got) < len(exp) and got == exp[:len(got)]:
        viol.append({'mech': 'logging/last-records-lost', 'msg': f'{what}: only the first {len(got)} of {len(exp)} records were handled (the tail, emitted just before the end, is lost)'})
    elif len(set(got)) < len(got):
        viol.append({'mech': 'logging/records-duplicated', 'msg': f'{what}: {len(got) - len(set(got))} records handled more than once'})
    elif sorted(got) == sorted(exp):
        viol.append({'mech': 'logging/records-out-of-order', 'msg': f'{what}: all records handled but not in emission order'})
    elif set(got) - set(exp):
        viol.append({'mech': 'logging/level-filter-wrong', 'msg': f'{what}: handled records the parent level excludes (or unknown ones): {sorted(set(got) - set(exp))[:5]}'})
    else:
        viol.append({'mech': 'logging/records-lost', 'msg': f'{what}: {len(exp) - len(got)} of {len(exp)} records were not handled'})


def decide_inconclusive(obs, results, cases):
    if obs.get('records_handled', 0) == 0 or obs.get('end_of_life_records', 0) == 0:
        return 'no record was handled / no end-of-life record case ran'
    return None


RULE = RULE + '; whole parent programs that end right after join()/result(); named-logger / handler levels'
