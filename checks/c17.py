"""C17 — IterableQueue delivers every item once and every consumer finishes; renew; stop requests."""
from __future__ import annotations

import queue as _queue
import random
import threading
import time

from vlib import schedfuzz, watch

PROPERTY = 'C17'
LEVEL = 'exploration'
RULE = ('rounds of m suppliers x n consumers (1-4 each, threads) over one IterableQueue (bound 1-3 or unbounded), 2-5 rounds separated by renew() called by '
        'one designated consumer behind a barrier, unique items (round, supplier, i), under line-level delay injection in __next__/put_end/renew with a '
        'targeted site between `_used_lids.put` and the `full()` test; process variant (suppliers and consumers in spawned processes) sampled; stop '
        'requests at three moments (before the blocking call, while blocked in get, while blocked in put). non-trivial = >=2 consumers and >=2 rounds; '
        'distinct = distinct (m, n, bound, rounds, interleaving signature); queues with a stop event attached (polling every second) and suppliers stalling for about that interval; race rounds: n consumers, fewer items, then the stop request')
ASSUMPTIONS = ['a consumer "finishes" if its iteration ends within 20 s of the last put_end (typical: ms) or else all stacks are sampled for stability (hang)',
               'a blocked get/put must raise StopRequested within 10 s of the stop event (wait interval is 1 s); the measured latency is evidence']
CASE_TIMEOUT = 150
PARALLEL = 14
BOUND = 20


def gen_cases(tier, seed):
    rng = random.Random(seed)
    cases = []
    for i in range(260 if tier == 'quick' else 6000):
        cases.append({'kind': 'threads', 'm': rng.choice([1, 2, 3, 4]), 'n': rng.choice([1, 2, 2, 3, 4]), 'bound': rng.choice([0, 1, 2, 3]),
                      'rounds': rng.choice([2, 3, 5]), 'items': rng.choice([0, 1, 5, 30]), 'p': rng.choice([0.05, 0.2, 0.4]), 'seed': rng.randrange(1 << 30)})
    # the other consumers begin the next round while one consumer is still inside renew()
    for i in range(40 if tier == 'quick' else 800):
        cases.append({'kind': 'threads', 'm': rng.choice([1, 1, 2, 3]), 'n': rng.choice([2, 2, 3, 4]), 'bound': rng.choice([0, 1, 3]), 'rounds': rng.choice([3, 5]),
                      'items': rng.choice([1, 5, 12]), 'p': rng.choice([0.05, 0.2]), 'overlap': True, 'seed': rng.randrange(1 << 30)})
    # the other queue kinds: queue.SimpleQueue, and process queues (mpservice.multiprocessing.Queue / SimpleQueue) used between threads
    for i in range(24 if tier == 'quick' else 400):
        cases.append({'kind': 'threads', 'm': rng.choice([1, 2, 3]), 'n': rng.choice([1, 2, 3]), 'bound': rng.choice([0, 2]), 'rounds': rng.choice([2, 3]),
                      'items': rng.choice([0, 1, 5, 20]), 'p': rng.choice([0.05, 0.2]), 'qkind': ['queue.SimpleQueue', 'mm.Queue', 'mm.SimpleQueue'][i % 3],
                      'with_stop_event': i % 2 == 0, 'seed': rng.randrange(1 << 30)})
    # a stop event is attached (never set): get/put poll every second; suppliers stall for about that interval
    for i in range(14 if tier == 'quick' else 200):
        cases.append({'kind': 'threads', 'm': rng.choice([1, 2]), 'n': rng.choice([1, 2, 3]), 'bound': rng.choice([0, 1]), 'rounds': 2, 'items': rng.choice([2, 6]),
                      'p': 0.2, 'with_stop_event': True, 'supplier_stall': round(rng.choice([rng.uniform(0.95, 1.08), rng.uniform(0.95, 1.08), rng.uniform(0.09, 0.12)]), 4),
                      'seed': rng.randrange(1 << 30)})
    for i in range(6 if tier == 'quick' else 80):
        cases.append({'kind': 'stop', 'moment': ['before', 'blocked-get', 'blocked-put'][i % 3], 'n': rng.choice([1, 3]), 'seed': rng.randrange(1 << 30)})
    # the blocked call carries an explicit, long timeout: stop still wins
    for i in range(2 if tier == 'quick' else 12):
        cases.append({'kind': 'stop', 'moment': ['blocked-put', 'responsive-get'][i % 2], 'n': 2, 'with_timeout': True, 'seed': rng.randrange(1 << 30)})
    # consumers race for fewer items than there are consumers, the losers stay blocked, then the stop is requested
    for i in range(6 if tier == 'quick' else 100):
        cases.append({'kind': 'stop', 'moment': 'race', 'n': rng.choice([2, 3, 4]), 'items': rng.choice([1, 1, 2]), 'rounds': 5 if tier == 'quick' else 12, 'seed': rng.randrange(1 << 30)})
    cases.append({'kind': 'early-put', 'when': 'before-consumption'})
    cases.append({'kind': 'early-put', 'when': 'after-consumption'})
    cases.append({'kind': 'early-put', 'when': 'two-suppliers'})
    for i in range(4 if tier == 'quick' else 60):
        cases.append({'kind': 'processes', 'm': rng.choice([1, 2]), 'n': rng.choice([2, 3]), 'items': rng.choice([5, 40]), 'rounds': 2, 'pkind': ['queue', 'simple', 'stoppable', 'queue'][i % 4],
                      'seed': rng.randrange(1 << 30)})
    # several rounds across processes: every copy of the queue lives in its own process, suppliers finish together, consumer 0 renews
    for i in range(4 if tier == 'quick' else 60):
        cases.append({'kind': 'processes', 'm': [2, 3, 4, 2][i % 4], 'n': [2, 3, 2, 4][i % 4], 'items': rng.choice([0, 3, 20]), 'prounds': [2, 3][i % 2],
                      'pkind': ['queue', 'simple', 'stoppable', 'queue'][i % 4], 'seed': rng.randrange(1 << 30)})
    return cases


def _qsize(q):
    try:
        return q.qsize()
    except (AttributeError, NotImplementedError):
        return 0  # this queue kind has no qsize()


def run_threads(case):
    import mpservice.queue as MQ

    rng = random.Random(case['seed'])
    m, n, rounds = case['m'], case['n'], case['rounds']
    qkind = case.get('qkind', 'queue.Queue')
    if qkind != 'queue.Queue':
        # the other queue kinds the class accepts (process queues used between threads go through feeder threads and pipes)
        import mpservice.multiprocessing as mm

        base = {'queue.SimpleQueue': _queue.SimpleQueue, 'mm.Queue': lambda: mm.Queue(case['bound']), 'mm.SimpleQueue': mm.SimpleQueue}[qkind]()
        ev = None
        if case.get('with_stop_event') and qkind != 'mm.SimpleQueue':
            ev = mm.Event() if qkind == 'mm.Queue' else threading.Event()
        q = MQ.IterableQueue(base, num_suppliers=m, **({'to_stop': ev} if ev is not None else {}))
    elif case.get('with_stop_event'):
        q = MQ.IterableQueue(_queue.Queue(case['bound']), num_suppliers=m, to_stop=threading.Event())
    else:
        q = MQ.IterableQueue(_queue.Queue(case['bound']), num_suppliers=m)
    viol = []
    obs = {'runs': 1, 'rounds': 0, 'items_delivered': 0, 'renews': 0}
    counts = [[rng.randrange(0, case['items'] + 1) for _ in range(m)] for _ in range(rounds)]
    received = [[[] for _ in range(n)] for _ in range(rounds)]
    errors = []
    bar = threading.Barrier(m + n)
    overlap = bool(case.get('overlap')) and n >= 2
    bar_top = threading.Barrier(m + 1)  # overlap mode, rounds > 0: suppliers + the renewing consumer only
    renew_info = []

    falsy_rounds = {(r, s) for r in range(rounds) for s in range(min(m, 3)) if rng.random() < 0.3}

    def item(r, s, i):
        # falsy but legal items (only None is reserved): 0, '' and () -- one per (round, supplier)
        if i == 0 and (r, s) in falsy_rounds:
            return [0, '', ()][s]
        return (r, s, i)

    def supplier(s):
        try:
            for r in range(rounds):
                if overlap and r > 0:
                    bar_top.wait(BOUND)
                else:
                    bar.wait(BOUND)
                for i in range(counts[r][s]):
                    if case.get('supplier_stall') and s == 0 and i == counts[r][s] // 2:
                        time.sleep(case['supplier_stall'])
                    q.put(item(r, s, i))
                if case.get('supplier_stall') and s == 0 and counts[r][s] == 0:
                    time.sleep(case['supplier_stall'])
                q.put_end()
                bar.wait(BOUND)
                if not overlap:
                    bar.wait(BOUND)  # renew happens between these two
        except threading.BrokenBarrierError:
            pass
        except Exception as e:  # noqa: BLE001
            errors.append(('supplier', s, repr(e)))
            bar.abort()

    def consumer(c):
        try:
            for r in range(rounds):
                if overlap and r > 0:
                    # overlap mode: the other consumers begin the next round's iteration at once, while consumer 0 may still be inside
                    # renew() (they either find the old round still closed -- an empty iteration -- or join the new round)
                    if c == 0:
                        bar_top.wait(BOUND)
                else:
                    bar.wait(BOUND)
                for x in q:
                    received[r][c].append(x)
                bar.wait(BOUND)
                if c == 0 and r + 1 < rounds:
                    q.renew()
                    renew_info.append((r, _qsize(q) if not overlap else 0))
                if not overlap:
                    bar.wait(BOUND)
        except threading.BrokenBarrierError:
            pass
        except Exception as e:  # noqa: BLE001
            errors.append(('consumer', c, repr(e)))
            bar.abort()

    fz = schedfuzz.SchedFuzz(seed=case['seed'], p=case['p'], delays=(0, 0, 0.0001, 0.0005, 0.002))
    fz.add(MQ.IterableQueue.__next__, MQ.IterableQueue.put_end, MQ.IterableQueue.renew)
    fz.add_site(MQ.IterableQueue.__next__, 'self._used_lids.put(z)', prob=0.5, delay=0.002, where='after', name='between-used-put-and-full-test')
    if overlap:
        fz.add_site(MQ.IterableQueue.renew, 'for _ in range(self._num_suppliers):', prob=0.7, delay=0.003, where='before', name='renew-between-its-two-halves')
        fz.add_site(MQ.IterableQueue.renew, 'self._spare_lids.put(z)', prob=0.5, delay=0.002, where='after', name='renew-after-a-lid-was-handed-back')
    if case.get('with_stop_event'):
        fz.add(MQ.ResponsiveQueue._get_put)
        fz.add_handler_sites(MQ.ResponsiveQueue._get_put, MQ.IterableQueue.__next__, prob=0.6, delay=0.015)
    ths = [threading.Thread(target=supplier, args=(s,), name=f'supplier-{s}', daemon=True) for s in range(m)]
    ths += [threading.Thread(target=consumer, args=(c,), name=f'consumer-{c}', daemon=True) for c in range(n)]
    with fz:
        for t in ths:
            t.start()
        deadline = time.monotonic() + BOUND + 5 * rounds
        for t in ths:
            t.join(max(0.0, deadline - time.monotonic()))
        alive = [t.name for t in ths if t.is_alive()]
        if alive:
            stable, snap = watch.stable_stacks()
            alive = [t.name for t in ths if t.is_alive()]
            if alive and stable:
                done_rounds = sum(1 for r in range(rounds) if sum(len(x) for x in received[r]) == sum(counts[r]))
                viol.append({'mech': 'iterq/consumer-never-finishes', 'msg': f'{alive} still blocked after all suppliers ended (m={m} n={n} bound={case["bound"]}, '
                             f'{done_rounds} of {rounds} rounds fully delivered; renew results {renew_info}); errors {errors}', 'stacks': snap})
                return {'violations': viol, 'obs': obs, 'fuzz': fz.stats(), 'exit_after': True, 'nontrivial': True, 'sig': repr(case)}
            if alive:
                return {'violations': [], 'obs': obs, 'inconclusive': 'threads still running, stacks changing', 'exit_after': True}
    st = fz.stats()
    if errors and not any('Barrier' in e[2] for e in errors):
        viol.append({'mech': 'iterq/unexpected-error', 'msg': f'{errors[:3]} (m={m} n={n} bound={case["bound"]} rounds={rounds}; renew results {renew_info})'})
    for r in range(rounds):
        got = [x for c in range(n) for x in received[r][c]]
        exp = [item(r, s, i) for s in range(m) for i in range(counts[r][s])]
        obs['items_delivered'] += len(got)
        if any(x is None for x in got):
            viol.append({'mech': 'iterq/none-yielded', 'msg': f'round {r}: an end marker was yielded as an item'})
        elif sorted(map(repr, got)) != sorted(map(repr, exp)):
            foreign = [x for x in got if isinstance(x, tuple) and len(x) == 3 and x[0] != r]
            missing = len(set(map(repr, exp)) - set(map(repr, got)))
            dup = len(got) - len(set(map(repr, got)))
            mech = 'iterq/item-leaks-between-rounds' if foreign else ('iterq/items-lost' if missing else 'iterq/items-duplicated')
            viol.append({'mech': mech, 'msg': f'round {r}: {missing} items missing, {dup} duplicated, {len(foreign)} from another round (m={m} n={n} bound={case["bound"]}; renew results {renew_info})'})
            break
        else:
            obs['rounds'] += 1
    for r, size in renew_info:
        obs['renews'] += 1
        if size != 0:
            viol.append({'mech': 'iterq/end-marker-survives-renew', 'msg': f'qsize() == {size} right after renew() following round {r} (m={m} n={n}): a spare end marker leaks into the next round'})
            break
    return {'violations': viol[:4], 'obs': obs, 'fuzz': st, 'nontrivial': n >= 2 and rounds >= 2,
            'sig': hash((m, n, case['bound'], rounds, st['signature'])) & 0xFFFFFFFFFFFF,
            'sample': {'kind': 'threads', 'suppliers': m, 'consumers': n, 'bound': case['bound'], 'rounds': rounds, 'items_per_round': [sum(c) for c in counts],
                       'per_consumer_round0': [len(x) for x in received[0]], 'qsize_after_renew': renew_info, 'injections': st['injections']}}


def run_stop_race(case):
    import mpservice.queue as MQ
    from mpservice._common import StopRequested

    viol = []
    obs = {'stop_runs': 0, 'stop_raised': 0, 'max_stop_latency_ms': 0, 'race_rounds': 0}
    rng = random.Random(case['seed'])
    fz = schedfuzz.SchedFuzz(seed=case['seed'], p=0.3, delays=(0, 0.0001, 0.0005, 0.002))
    fz.add(MQ.ResponsiveQueue.get, MQ.ResponsiveQueue.put, MQ.ResponsiveQueue._get_put, MQ.IterableQueue.__next__)
    with fz:
        for rd in range(case['rounds']):
            ev = threading.Event()
            q = MQ.IterableQueue(_queue.Queue(), num_suppliers=1, to_stop=ev)
            k = min(case['items'], case['n'] - 1)
            for i in range(k):
                q.put(('it', rd, i))
            res = {}
            go = threading.Barrier(case['n'])

            def consumer(i):
                try:
                    go.wait(5)
                    res[i] = ('item', next(q))
                except StopRequested:
                    res[i] = ('stop', time.monotonic())
                except BaseException as e:  # noqa: BLE001
                    res[i] = ('other', repr(e))

            ths = [threading.Thread(target=consumer, args=(i,), name=f'racer-{i}', daemon=True) for i in range(case['n'])]
            for t in ths:
                t.start()
            time.sleep(0.02 + rng.random() * 0.02)
            t_set = time.monotonic()
            ev.set()
            for t in ths:
                t.join(max(0.0, t_set + 10 - time.monotonic()))
            alive = [t.name for t in ths if t.is_alive()]
            obs['race_rounds'] += 1
            obs['stop_runs'] += 1
            if alive:
                stable, snap = watch.stable_stacks()
                if stable and [t for t in ths if t.is_alive()]:
                    viol.append({'mech': 'iterq/stop-request-ignored/race', 'msg': f'{alive} still blocked 10 s after the stop event: they lost the race for the last item and no longer notice the stop request '
                                 f'({case["n"]} consumers, {k} items)', 'stacks': snap})
                    return {'violations': viol, 'obs': obs, 'fuzz': fz.stats(), 'exit_after': True, 'nontrivial': True, 'sig': repr(case)}
            got = sorted(r[1] for r in res.values() if r[0] == 'item')
            if got != [('it', rd, i) for i in range(k)]:
                viol.append({'mech': 'iterq/items-lost', 'msg': f'race round: consumers received {got}, {k} items were put'})
            for r in res.values():
                if r[0] == 'stop':
                    obs['stop_raised'] += 1
                    obs['max_stop_latency_ms'] = max(obs['max_stop_latency_ms'], int((r[1] - t_set) * 1000))
                elif r[0] == 'other':
                    viol.append({'mech': 'iterq/stop-request-ignored/race', 'msg': f'blocked consumer ended with {r[1]}'})
            if viol:
                break
    return {'violations': viol[:3], 'obs': obs, 'fuzz': fz.stats(), 'nontrivial': True, 'sig': repr(('race', case['n'], case['seed'])),
            'sample': {'kind': 'stop-race', 'consumers': case['n'], 'items': case['items'], 'rounds': obs['race_rounds'], 'stop_raised': obs['stop_raised']}}


def run_stop(case):
    import mpservice.queue as MQ
    from mpservice._common import StopRequested

    if case['moment'] == 'race':
        return run_stop_race(case)
    viol = []
    obs = {'stop_runs': 1, 'stop_raised': 0, 'max_stop_latency_ms': 0}
    ev = threading.Event()
    moment = case['moment']
    if moment == 'blocked-put':
        q = MQ.IterableQueue(_queue.Queue(1), num_suppliers=1, to_stop=ev)
        q.put('fill')
    else:
        q = MQ.IterableQueue(_queue.Queue(), num_suppliers=1, to_stop=ev)
    rq = MQ.ResponsiveQueue(_queue.Queue(), ev) if moment == 'responsive-get' else None
    res = {}

    def blocked(i):
        t0 = None
        try:
            if moment == 'blocked-put':
                if case.get('with_timeout') and i % 2 == 0:
                    q.put(('x', i), timeout=12)  # an explicit (long) timeout on the blocked call: the stop request still ends it
                else:
                    q.put(('x', i))
                res[i] = ('returned', None)
            elif moment == 'responsive-get':
                x = rq.get(timeout=12 if i % 2 == 0 else None)
                res[i] = ('returned', x)
            else:
                x = next(q)
                res[i] = ('returned', x)
        except StopRequested:
            res[i] = ('stop', time.monotonic())
        except BaseException as e:  # noqa: BLE001
            res[i] = ('other', repr(e))

    if moment == 'before':
        ev.set()
    ths = [threading.Thread(target=blocked, args=(i,), name=f'blocked-{i}', daemon=True) for i in range(case['n'])]
    for t in ths:
        t.start()
    time.sleep(0.05)
    t_set = time.monotonic()
    ev.set()
    for t in ths:
        t.join(10)
    alive = [t.name for t in ths if t.is_alive()]
    if alive:
        stable, snap = watch.stable_stacks()
        if stable and [t for t in ths if t.is_alive()]:
            viol.append({'mech': f'iterq/stop-request-ignored/{moment}', 'msg': f'{alive} still blocked 10 s after the stop event', 'stacks': snap})
            return {'violations': viol, 'obs': obs, 'exit_after': True, 'nontrivial': True, 'sig': repr(case)}
    for i, r in res.items():
        if r[0] != 'stop':
            viol.append({'mech': f'iterq/stop-request-ignored/{moment}', 'msg': f'blocked call ended with {r!r} instead of StopRequested'})
        else:
            obs['stop_raised'] += 1
            obs['max_stop_latency_ms'] = max(obs['max_stop_latency_ms'], int((r[1] - t_set) * 1000))
    return {'violations': viol, 'obs': obs, 'nontrivial': True, 'sig': repr((moment, case['n'], case['seed'])),
            'sample': {'kind': 'stop', 'moment': moment, 'blocked_callers': case['n'], 'latency_ms': obs['max_stop_latency_ms']}}


def _p_supplier(q, s, counts, rounds, sgo_q=None):
    for r in range(rounds):
        if r and sgo_q is not None:
            sgo_q[r - 1].wait()  # the next round's items are put only after the consumers' renew (putting earlier is the early-put known finding)
        for i in range(counts[r][s]):
            q.put((r, s, i))
        q.put_end(wait_for_renew=True)


def _p_consumer(q, c, rounds, out, renew_q, n, go_q=None, sgo_q=None, m=0):
    fz = None
    if rounds > 1:
        # this consumer dawdles inside the section that moves an end marker's lid (the section the queue protects with its lock)
        import mpservice.queue as MQ

        fz = schedfuzz.SchedFuzz(seed=c + 1, p=0.0)
        fz.add_site(MQ.IterableQueue.__next__, 'z = self._applied_lids.get()', prob=0.8, delay=0.03, where='after', name='holding-lids-lock')
        fz.add_site(MQ.IterableQueue.__next__, 'self._used_lids.put(z)', prob=0.8, delay=0.03, where='after', name='after-lid-moved')
        fz.start()
    try:
        return _p_consumer_rounds(q, c, rounds, out, renew_q, n, go_q, sgo_q, m)
    finally:
        if fz is not None:
            fz.stop()


def _p_consumer_rounds(q, c, rounds, out, renew_q, n, go_q=None, sgo_q=None, m=0):
    for r in range(rounds):
        got = [x for x in q]
        out.put((r, c, got))
        if r + 1 < rounds:
            if c == 0:
                # wait until the other consumers have finished this round, then renew
                for _ in range(n - 1):
                    renew_q.get()
                q.renew()
                go_q[r].set()  # one event per round: everybody (consumers and suppliers) starts round r+1 after this renew
            else:
                renew_q.put(1)
                go_q[r].wait()  # the next round starts after consumer 0 has renewed
    return True


def run_processes(case):
    import mpservice.multiprocessing as mm
    import mpservice.queue as MQ

    # processes: round separation is driven by messages; consumers other than #0 wait for 'go' on a per-round event
    rng = random.Random(case['seed'])
    m, n, rounds = case['m'], case['n'], case.get('prounds', 1)
    viol = []
    obs = {'process_runs': 1, 'items_delivered': 0}
    pk = case.get('pkind', 'queue')
    if pk == 'simple':
        q = MQ.IterableQueue(mm.SimpleQueue(), num_suppliers=m)
    elif pk == 'stoppable':
        q = MQ.IterableQueue(mm.Queue(), num_suppliers=m, to_stop=mm.Event())  # travels to the children together with the queue
    else:
        q = MQ.IterableQueue(mm.Queue(), num_suppliers=m)
    counts = [[rng.randrange(0, case['items'] + 1) for _ in range(m)] for _ in range(rounds)]
    out = mm.Queue()
    renew_q = mm.Queue()
    go_q = [mm.Event() for _ in range(rounds)]
    sgo_q = go_q
    procs = [mm.Process(target=_p_supplier, args=(q, s, counts, rounds, sgo_q)) for s in range(m)]
    procs += [mm.Process(target=_p_consumer, args=(q, c, rounds, out, renew_q, n, go_q, sgo_q, m)) for c in range(n)]
    for p in procs:
        p.start()
    got = []
    try:
        def collect():
            for _ in range(n * rounds):
                got.append(out.get(timeout=60))
            for p in procs:
                p.join()

        watch.run_bounded(collect, 90, 'process round')
    except watch.Hang as h:
        viol.append({'mech': 'iterq/consumer-never-finishes', 'msg': f'process variant ({rounds} round(s)): {len(got)} of {n * rounds} consumer reports arrived', 'stacks': h.stacks})
        for p in procs:
            try:
                p.kill()
            except Exception:
                pass
        return {'violations': viol, 'obs': obs, 'exit_after': True, 'nontrivial': True, 'sig': repr(case)}
    except Exception as e:  # noqa: BLE001
        viol.append({'mech': 'iterq/unexpected-error', 'msg': f'process variant: {e!r}'})
        return {'violations': viol, 'obs': obs, 'exit_after': True, 'nontrivial': True, 'sig': repr(case)}
    items = [tuple(x) for _, _, g in got for x in g]
    exp = [(r, s, i) for r in range(rounds) for s in range(m) for i in range(counts[r][s])]
    obs['items_delivered'] = len(items)
    if rounds > 1:
        obs['process_renews'] = rounds - 1
    for r in range(rounds):
        gr = sorted(tuple(x) for rr, _, g in got if rr == r for x in g)
        er = sorted(x for x in exp if x[0] == r)
        if gr != er and not viol:
            wrong = [x for x in gr if x[0] != r]
            if wrong:
                viol.append({'mech': 'iterq/item-from-another-round', 'msg': f'process variant: round {r} delivered {wrong[:3]!r}'})
            else:
                viol.append({'mech': 'iterq/items-lost' if len(gr) < len(er) else 'iterq/items-duplicated',
                             'msg': f'process variant: round {r} of {rounds}: consumers received {len(gr)} items, suppliers put {len(er)} (per consumer: {[(c, len(g)) for rr, c, g in got if rr == r]})'})
    return {'violations': viol, 'obs': obs, 'nontrivial': True, 'sig': repr((m, n, case['seed'])), 'exit_after': True,
            'sample': {'kind': 'processes', 'suppliers': m, 'consumers': n, 'rounds': rounds, 'items': len(exp), 'per_consumer': [len(g) for _, _, g in got]}}


def run_early_put(case):
    """The docstring of put_end allows a supplier to put items of the NEXT round after its put_end and before the consumer's renew
    ("not accessible ... until the consumer has called renew").  Deterministic, single thread."""
    import mpservice.queue as MQ

    viol = []
    obs = {'runs': 1, 'early_put_runs': 1, 'rounds': 0, 'items_delivered': 0}
    when = case['when']
    if when == 'two-suppliers':
        # supplier A ends its round and puts an item for the next round while supplier B is still in the current one
        q = MQ.IterableQueue(_queue.Queue(), num_suppliers=2)
        q.put(('r0', 'a'))
        q.put_end()
        q.put(('r1', 'early-a'))
        q.put(('r0', 'b'))
        q.put_end()
        got0 = watch.run_bounded(lambda: list(q), 10, 'first round')
        obs['rounds'] = 1
        obs['items_delivered'] = len(got0)
        if sorted(got0) != [('r0', 'a'), ('r0', 'b')]:
            leaked = [x for x in got0 if x[0] != 'r0']
            mech = 'iterq/early-put-for-next-round-delivered-in-current-round' if leaked == [('r1', 'early-a')] and sorted(x for x in got0 if x[0] == 'r0') == [('r0', 'a'), ('r0', 'b')] else 'iterq/item-from-another-round'
            viol.append({'mech': mech, 'msg': f'two suppliers; A put an item for the next round after its put_end (allowed by the docstring of put_end: "not accessible ... until the consumer '
                         f'has called renew") while B was still in the current round: the round delivered {got0!r}'})
        return {'violations': viol, 'obs': obs, 'nontrivial': True, 'sig': repr(('early-put', when)), 'sample': {'kind': 'early-put', 'when': when, 'round0': repr(got0)}}
    q = MQ.IterableQueue(_queue.Queue(), num_suppliers=1)
    q.put(('r0', 0))
    q.put_end()
    if when == 'before-consumption':
        q.put(('r1', 'early'))
    got0 = list(q)
    if when == 'after-consumption':
        q.put(('r1', 'early'))
    err = None
    got1 = None
    try:
        q.renew()
        q.put(('r1', 'late'))
        q.put_end()
        got1 = watch.run_bounded(lambda: list(q), 10, 'second round')
    except watch.Hang:
        err = 'second round never ended'
    except Exception as e:  # noqa: BLE001
        err = repr(e)
    obs['rounds'] = 2
    obs['items_delivered'] = len(got0) + len(got1 or [])
    if got0 != [('r0', 0)]:
        viol.append({'mech': 'iterq/item-from-another-round', 'msg': f'round 0 delivered {got0!r}; an item put after put_end belongs to the next round'})
    if err is not None or got1 != [('r1', 'early'), ('r1', 'late')]:
        mech = 'iterq/early-put-for-next-round-breaks-renew' if when == 'before-consumption' and (err or '').startswith('RuntimeError') and 'expecting None' in (err or '') else 'iterq/next-round-wrong-after-early-put'
        viol.append({'mech': mech, 'msg': f'supplier put an item for the next round {when.replace("-", " ")} of round 0 (allowed by the docstring of put_end): renew / round 1 gave error={err} items={got1!r}; '
                     f"expected round 1 = [('r1','early'), ('r1','late')]"})
    return {'violations': viol, 'obs': obs, 'nontrivial': True, 'sig': repr(('early-put', when)), 'sample': {'kind': 'early-put', 'when': when, 'round0': repr(got0), 'round1': repr(got1), 'error': err}}


def run_case(case):
    if case['kind'] == 'early-put':
        return run_early_put(case)
    if case['kind'] == 'threads':
        return run_threads(case)
    if case['kind'] == 'stop':
        return run_stop(case)
    return run_processes(case)


def decide_inconclusive(obs, results, cases):
    if obs.get('renews', 0) == 0 or obs.get('items_delivered', 0) == 0 or obs.get('stop_raised', 0) == 0:
        return 'no renew / no delivered item / no stop request was observed'
    return None


RULE = RULE + '; overlap rounds (consumers start the next round while renew runs); queue.SimpleQueue and process queues between threads; SimpleQueue / stop event across processes; early-put cases (known finding); 2-3 rounds with renew across 2-4 supplier and 2-4 consumer processes'
