"""C09 — workers see well-formed batches; no request waits for a full batch."""
from __future__ import annotations

import os
import random
import shutil
import tempfile
import threading
import time

from vlib import schedfuzz, srvharness as SH, srvtargets as ST, vtime, watch
from checks.c19 import judge_timeline, make_script

PROPERTY = 'C09'
EVALUATIONS_KEYS = ['scripts', 'lifetimes']
LEVEL = 'exploration'
RULE = ('(a) real servers: Sequential(unbatched upstream stage that fails some inputs, batched stage under test with batch_size 0/1/2/3/5, 1-3 competing '
        'thread or process workers, optional in-worker thread pool, preprocess rejecting some inputs) x arrival pattern {burst stream, trickle, lone '
        'request} under the schedule fuzzer with a targeted site in the collector\'s buffer.full()->wait() window; every `call` argument is logged by '
        'the instrumented worker and judged; (b) the real Worker._get_input_batch on a scripted queue in virtual time with the five timing rules of C19. '
        'non-trivial (a) = lifetime in which batches of size >1 and partial batches were both observed; (b) = script with >=2 batches incl. a '
        'timer-released one; distinct = distinct (configuration, seed) / scripts')
ASSUMPTIONS = ['Worker._get_input_batch reads time through the module-global perf_counter of mpservice.mpserver._worker and waits only in buffer.get()',
               'lone-request liveness is a bounded-progress statement: answered within 20 s (typical: batch_wait_time + ms) or stacks stable => hang']
CASE_TIMEOUT = 200
PARALLEL = 14
GROUP = 1
BOUND = 60


def gen_cases(tier, seed):
    rng = random.Random(seed)
    cases = []
    for i in range(40 if tier == 'quick' else 400):
        cases.append({'kind': 'vtime', 'seed': seed * 100003 + i, 'n_scripts': 500 if tier == 'quick' else 1500})
    n = 70 if tier == 'quick' else 1200
    for i in range(n):
        r = random.Random(rng.randrange(1 << 30))
        proc = i % 6 == 0
        cases.append({'kind': 'server', 'process': proc, 'batch': r.choice([0, 1, 2, 3, 3, 5]), 'wait': r.choice([0, 0.001, 0.004, None]),
                      'workers': r.choice([1, 2, 3]), 'nstream': r.choice([0, 0, 2]) if not proc else 0,
                      'pattern': r.choice(['burst', 'burst', 'trickle', 'lone', 'mixed']),
                      'n': r.choice([30, 80, 200]) if not proc else r.choice([20, 60]), 'callers': r.choice([1, 2, 4]),
                      'capacity': r.choice([8, 64, 256]), 'fuzz': True, 'seed': r.randrange(1 << 30)})
    # the collector's lost wake-up needs a full batch buffer (batch_size+10 queued): big bursts, small batches
    for i in range(6 if tier == 'quick' else 80):
        r = random.Random(rng.randrange(1 << 30))
        cases.append({'kind': 'server', 'process': False, 'batch': 2, 'wait': 0.001, 'workers': 1, 'nstream': 0, 'pattern': 'burst', 'n': 300,
                      'callers': 1, 'capacity': 256, 'fuzz': True, 'lostwake': True, 'seed': r.randrange(1 << 30)})
    # two batching workers on different queues in one process (the upstream stage batches too), mostly sparse traffic
    for i in range(8 if tier == 'quick' else 100):
        r = random.Random(rng.randrange(1 << 30))
        cases.append({'kind': 'server', 'process': False, 'batch': r.choice([2, 3, 5]), 'wait': r.choice([0.001, 0.004, None]), 'workers': r.choice([1, 2]), 'nstream': 0,
                      'ub': r.choice([2, 3, 4]), 'pattern': ['lone', 'trickle', 'lone', 'burst'][i % 4], 'n': r.choice([30, 80]), 'callers': r.choice([1, 2]),
                      'capacity': 64, 'fuzz': i % 2 == 0, 'seed': r.randrange(1 << 30)})
    return cases


# ----------------------------------------------------------------------------- (b) virtual time
def run_vtime(case):
    import mpservice.mpserver._worker as W

    rng = random.Random(case['seed'])
    obs = {'scripts': 0, 'vt_batches': 0, 'vt_full': 0, 'vt_partial_timer': 0, 'vt_partial_end': 0, 'vt_ties_excluded': 0}
    viol = []
    sigs = []
    restores = []
    sample = None
    try:
        for _ in range(case['n_scripts']):
            script = make_script(rng)
            b = max(2, script['b'])  # _get_input_batch is only used when batch_size > 1
            wait = script['wait'] if script['wait'] is not None else 0.01
            arrivals = [(t, (('uid', i), x)) for i, (t, x) in enumerate(script['arrivals'][:-1])] + [(script['arrivals'][-1][0], None)]
            clock = vtime.VClock(arrivals[0][0] - 0.5)
            q = vtime.ScriptedQueue(clock, arrivals)
            restore, nb = vtime.bind_clock(W, clock)
            restores.append(restore)
            obs['clock_bindings'] = nb
            w = W.Worker(worker_index=0, batch_size=b, batch_wait_time=wait)
            w._batch_buffer = q
            w._batch_get_called = threading.Event()
            batches = []
            dead = False
            try:
                while True:
                    lo = len(q.log)
                    out = w._get_input_batch()
                    if out is None:
                        break
                    batches.append((list(out), clock.now, lo, len(q.log)))
                    if not w._batch_get_called.is_set():
                        viol.append({'mech': 'get_input_batch/collector-not-signalled', 'msg': '_batch_get_called was not set after a batch was taken'})
                    w._batch_get_called.clear()
                    if script['consumer'] != 'fast' and rng.random() < 0.4:
                        clock.now += (wait or 0.01) * rng.uniform(0.2, 3)
            except vtime.Deadlock:
                dead = True
                viol.append({'mech': 'get_input_batch/untimed-wait-after-end', 'msg': 'untimed get with nothing left to arrive (end marker swallowed): the worker would never stop'})
            obs['scripts'] += 1
            if dead:
                break
            # the end marker must be put back for the next call (and hence for fellow workers)
            v, st = judge_timeline('get_input_batch', arrivals, batches, q.log, b, wait)
            for x in v[:1]:
                x['script'] = {'b': b, 'wait': wait, 'arrivals': repr([(round(t - arrivals[0][0], 5), i) for i, (t, _) in enumerate(arrivals)])}
                viol.append(x)
            for k in ('batches', 'full', 'partial_timer', 'partial_end'):
                obs['vt_' + k] += st.get(k, 0)
            obs['vt_ties_excluded'] += st.get('ties', 0)
            if st.get('batches', 0) >= 2 and st.get('partial_timer', 0) >= 1:
                sigs.append(hash((b, wait, tuple(round(t, 9) for t, _ in arrivals))) & 0xFFFFFFFFFFFF)
            if sample is None and st.get('partial_timer') and st.get('full'):
                sample = {'kind': 'vtime', 'batch_size': b, 'wait': wait, 'arrivals': [round(t - arrivals[0][0], 4) for t, _ in arrivals][:12],
                          'batches': [[i[0][1] for i in bt[0]] for bt in batches][:8], 'stats': st}
            if len(viol) > 5:
                break
    finally:
        for r in reversed(restores):
            r()
    return {'violations': viol[:6], 'obs': obs, 'sigs': sigs, 'nontrivial': bool(sigs), 'sample': sample}


# ----------------------------------------------------------------------------- (a) real servers
def run_server(case):
    import mpservice.mpserver._worker as W
    from mpservice.mpserver import ProcessServlet, SequentialServlet, Server, ThreadServlet

    rng = random.Random(case['seed'])
    viol = []
    b = case['batch']
    obs = {'lifetimes': 1, 'requests': 0, 'calls_logged': 0, 'batches_gt1': 0, 'partial_batches': 0, 'rejected_by_preprocess': 0,
           'failed_upstream': 0, 'lone_requests': 0, 'max_batch_minus_size': -99}
    log_dir = tempfile.mkdtemp(prefix='vf-c09-')
    ST.CALL_LOG.clear()
    kw = {'tag': 'A', 'log_dir': log_dir}
    if b:
        kw['batch_size'] = b
        if b > 1 and case['wait'] is not None:
            kw['batch_wait_time'] = case['wait']
    if case['nstream']:
        kw['nstream'] = case['nstream']
    if case['process']:
        stage = ProcessServlet(ST.TagWorker, cpus=[None] * case['workers'], fuzz=(case['seed'] % 1000 + 1), **kw)
    else:
        stage = ThreadServlet(ST.TagWorker, num_threads=case['workers'], **kw)
    ub = case.get('ub', 0)
    ukw = {'batch_size': ub, 'batch_wait_time': 0.002} if ub else {}
    # (ub > 0: the upstream stage batches too -- two batching workers on different queues in one process)
    servlet = SequentialServlet(ThreadServlet(ST.TagWorker, tag='U', num_threads=1, **ukw), stage)
    n = case['n']
    toks = []
    for c in range(case['callers']):
        for s in range(n):
            plan = []
            r = rng.random()
            if r < 0.08 and not ub:
                plan.append(('U', 'fail', None))
            elif r < 0.16:
                plan.append(('A', 'reject', None))
            elif r < 0.2 and b > 0:
                plan.append(('A', 'poison', None))
            if rng.random() < 0.15:
                plan.append(('A', 'sleep', rng.choice([0.0005, 0.002])))
            toks.append(('tok', c, s, tuple(plan)))
    per_caller = [[t for t in toks if t[1] == c] for c in range(case['callers'])]
    pattern = case['pattern']
    fz = schedfuzz.SchedFuzz(seed=case['seed'], p=0.03 if not case.get('lostwake') else 0.0, changepoints=2, changepoint_delay=0.01)
    fz.add(W.Worker._start_batch, W.Worker._build_input_batches, W.Worker._get_input_batch, W.Worker._start_single)
    if case.get('lostwake'):
        fz.add_site(W.Worker._build_input_batches, 'if buffer.full():', prob=0.5, delay=0.03, where='after', name='collector-between-full-test-and-wait')
    else:
        fz.add_site(W.Worker._build_input_batches, 'if buffer.full():', prob=0.3, delay=0.004, where='after', name='collector-between-full-test-and-wait')
    outcomes = {}
    lock = threading.Lock()
    server = Server(servlet, capacity=case['capacity'])

    def caller(c):
        r = random.Random(case['seed'] + c)
        mine = per_caller[c]
        if pattern == 'burst' or (pattern == 'mixed' and c % 2 == 0):
            for x, y in server.stream(iter(mine), return_x=True, return_exceptions=True, timeout=60):
                with lock:
                    outcomes[(x[1], x[2])] = y
        else:
            for t in mine[: (8 if pattern == 'lone' else 40)]:
                if pattern == 'lone':
                    time.sleep(0.02)  # the servlet is idle: this request is alone
                    with lock:
                        obs['lone_requests'] += 1
                elif pattern in ('trickle', 'mixed'):
                    time.sleep(r.choice([0, 0.0005, 0.002, (case['wait'] or 0.001) * 1.5]))
                try:
                    y = server.call(t, timeout=30, backpressure=False)
                except BaseException as e:  # noqa: BLE001
                    y = e
                with lock:
                    outcomes[(t[1], t[2])] = y

    def lifetime():
        with server:
            with fz:
                ths = [threading.Thread(target=caller, args=(c,), name=f'caller-{c}') for c in range(case['callers'])]
                for t in ths:
                    t.start()
                for t in ths:
                    t.join()

    try:
        watch.run_bounded(lifetime, BOUND, 'server lifetime')
    except watch.Hang as h:
        mech = 'batching/requests-stuck'
        if any('_build_input_batches' in fr and 'wait' in ' '.join(frs[-3:]) for frs in h.stacks.values() for fr in frs):
            mech = 'batching/collector-lost-wakeup'
        viol.append({'mech': mech, 'msg': f'requests were never served (pattern {pattern}, batch_size {b}); {len(outcomes)} outcomes so far; stacks stable', 'stacks': h.stacks})
        shutil.rmtree(log_dir, ignore_errors=True)
        return {'violations': viol, 'obs': obs, 'exit_after': True, 'fuzz': fz.stats(), 'nontrivial': True, 'sig': repr(case)}
    except watch.Inconclusive as e:
        shutil.rmtree(log_dir, ignore_errors=True)
        return {'violations': [], 'obs': obs, 'inconclusive': str(e), 'exit_after': True}

    # ---- judge the call log of stage A
    if case['process']:
        calls = [tuple(c) for c in ST.read_call_logs(log_dir) if c[0] == 'A']
    else:
        calls = [c for c in ST.CALL_LOG if c[0] == 'A']
    shutil.rmtree(log_dir, ignore_errors=True)
    obs['calls_logged'] = len(calls)
    plan_of = {(t[1], t[2]): t[3] for t in toks}
    issued = set(outcomes)
    seen = {}
    for tag, widx, ids, batched in calls:
        if b > 0:
            if not batched or not isinstance(ids, list) or (ids and ids[0] == 'NOT-A-LIST'):
                viol.append({'mech': 'batching/call-arg-not-a-list', 'msg': f'worker with batch_size {b} was called with {ids!r}'})
                continue
            k = len(ids)
            obs['max_batch_minus_size'] = max(obs['max_batch_minus_size'], k - b)
            if k == 0:
                viol.append({'mech': 'batching/empty-batch', 'msg': 'call received an empty list'})
            if k > b:
                viol.append({'mech': 'batching/batch-too-large', 'msg': f'call received {k} elements with batch_size {b}'})
            if k > 1:
                obs['batches_gt1'] += 1
            if k < b:
                obs['partial_batches'] += 1
            members = ids
        else:
            if batched:
                viol.append({'mech': 'batching/unbatched-worker-got-a-list', 'msg': f'worker with batch_size 0 was called with a list {ids!r}'})
                continue
            members = [ids]
        for i in members:
            if not (isinstance(i, (list, tuple)) and len(i) == 2 and all(isinstance(v, int) for v in i)):
                viol.append({'mech': 'batching/non-genuine-element', 'msg': f'call received a non-request element {i!r} (exception value, end marker, ...)'})
                continue
            i = tuple(i)
            seen[i] = seen.get(i, 0) + 1
            acts = [(t, a) for t, a, _ in plan_of.get(i, ())]
            if ('U', 'fail') in acts:
                viol.append({'mech': 'batching/upstream-failure-reached-call', 'msg': f'request {i} failed in the upstream stage but was handed to call'})
            if ('A', 'reject') in acts:
                viol.append({'mech': 'batching/rejected-element-reached-call', 'msg': f'request {i} was rejected by preprocess but was handed to call'})
    for i in issued:
        acts = [(t, a) for t, a, _ in plan_of[i]]
        obs['requests'] += 1
        if ('U', 'fail') in acts:
            obs['failed_upstream'] += 1
            continue
        if ('A', 'reject') in acts:
            obs['rejected_by_preprocess'] += 1
            continue
        if seen.get(i, 0) != 1:
            viol.append({'mech': 'batching/not-exactly-one-batch', 'msg': f'accepted request {i} appeared in {seen.get(i, 0)} calls'})
            break
    # every request has its own outcome (reference meaning incl. co-batched failures)
    tree = ['Seq', [['T', 'U', 1, ub, {}], ['P' if case['process'] else 'T', 'A', case['workers'], b, {}]]]
    SH.POISONERS.clear()
    for t in toks:
        for tg, a, _ in t[3]:
            if a == 'poison':
                SH.POISONERS.setdefault(tg, set()).add((t[1], t[2]))
    for t in toks:
        i = (t[1], t[2])
        if i not in outcomes:
            continue
        got = SH.norm_outcome(outcomes[i])
        ok, exp = SH.judge_outcome(tree, t, got)
        if not ok:
            viol.append({'mech': 'batching/wrong-outcome', 'msg': f'request {i} plan {t[3]} got {got!r}'[:500] + f'; expected {exp!r}'[:300]})
            break
    st = fz.stats()
    res = {'violations': viol[:6], 'obs': obs, 'fuzz': st, 'nontrivial': obs['batches_gt1'] > 0 and obs['partial_batches'] > 0,
           'sig': hash((b, case['wait'], case['workers'], case['nstream'], pattern, case['process'], case['seed'])) & 0xFFFFFFFFFFFF,
           'sample': {'kind': 'server', 'process': case['process'], 'batch_size': b, 'wait': case['wait'], 'workers': case['workers'],
                      'nstream': case['nstream'], 'pattern': pattern, 'requests': obs['requests'], 'calls': len(calls),
                      'batch_sizes_head': [len(c[2]) if c[3] else 1 for c in calls[:15]], 'site_hits': st['site_hits']}}
    if viol or case['process']:
        res['exit_after'] = True
    return res


def run_case(case):
    if case['kind'] == 'vtime':
        return run_vtime(case)
    return run_server(case)


def decide_inconclusive(obs, results, cases):
    if obs.get('batches_gt1', 0) == 0 or obs.get('partial_batches', 0) == 0:
        return 'no real batch (>1) or no partial batch was observed in a worker call'
    if obs.get('vt_partial_timer', 0) == 0 or obs.get('lone_requests', 0) == 0:
        return 'virtual-time monitor saw no timer-released batch / no lone request was issued'
    return None


RULE = RULE + '; servers whose upstream stage batches too (two batching workers on different queues)'
