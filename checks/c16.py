"""C16 — async variants give the same answers as their sync counterparts (differential)."""
from __future__ import annotations

import asyncio
import itertools
import random

from vlib import gates, streamharness as H, watch
from vlib.targets import Boom, norm_exc

PROPERTY = 'C16'
EVALUATIONS_KEYS = ['pairs']
LEVEL = 'exploration'
RULE = ('differential runs: identical inputs, failure set, preprocessor rejections, flags, capacity and per-call virtual durations '
        '(priority permutation => completion order) through fifo_stream and async_fifo_stream; all n! duration rankings for n<=4 '
        '(quick) / n<=5 (thorough), seeded rankings for n<=60; Parmapper vs AsyncParmapper/AsyncParmapperAsync/ParmapperAsync with '
        'duration-carrying elements; Server.call/stream vs AsyncServer.call/stream on the same servlet and request plan. '
        'non-trivial = a rejected or failing element present and an out-of-order completion; distinct = distinct (config, ranking); a phase with 6-12 concurrent no-backpressure callers on capacity 2-3 with equal service times on both servers')
ASSUMPTIONS = ['outputs are compared after normalising exceptions to (type name, args)']
CASE_TIMEOUT = 120
PARALLEL = 14
GROUP = 1


def gen_cases(tier, seed):
    rng = random.Random(seed)
    cases = []
    nmax = 4 if tier == 'quick' else 5
    for n in range(1, nmax + 1):
        for cap in (1, 2, 3):
            for rx in (False, True):
                for rexc in (False, True):
                    for plan in ('none', 'fail', 'reject-first', 'reject-last', 'reject-mid', 'reject-all', 'reject+fail', 'submit-fail', 'submit-fail+pre', 'reject+submit-fail'):
                        if n == 1 and plan in ('reject-mid', 'reject+fail', 'reject+submit-fail'):
                            continue
                        if tier == 'quick' and n == 4 and cap == 3 and plan in ('none', 'fail'):
                            continue
                        cases.append({'kind': 'fifo-all-rankings', 'n': n, 'capacity': cap, 'return_x': rx,
                                      'return_exceptions': rexc, 'plan': plan})
    for i in range(150 if tier == 'quick' else 4000):
        cases.append({'kind': 'fifo-seeded', 'n': rng.choice([2, 5, 9, 20, 60]), 'capacity': rng.choice([1, 2, 3, 4]),
                      'return_x': rng.random() < 0.5, 'return_exceptions': rng.random() < 0.6,
                      'reject_every': rng.choice([0, 0, 2, 3, 5]), 'fail_rate': rng.choice([0, 0.1, 0.3]),
                      'policy': rng.choice(['fifo', 'lifo', 'random', 'blocklifo']), 'seed': rng.randrange(1 << 30)})
    for i in range(10 if tier == 'quick' else 200):
        cases.append({'kind': 'parmappers', 'n': rng.choice([1, 10, 40]), 'concurrency': rng.choice([1, 2, 4]),
                      'return_x': rng.random() < 0.5, 'return_exceptions': rng.random() < 0.6,
                      'fail_rate': rng.choice([0, 0.15]), 'seed': rng.randrange(1 << 30)})
    for cls in ('StopIteration', 'TimeoutError', 'queue.Empty'):
        for rexc in (True, False):
            cases.append({'kind': 'parmappers', 'n': 6, 'concurrency': 2, 'return_x': False, 'return_exceptions': rexc, 'fail_rate': 0, 'force_class': cls, 'seed': rng.randrange(1 << 30)})
    # the preprocessor rejects an element with one of the classes the library / asyncio / generators use for their own control flow
    for cls in ('StopIteration', 'TimeoutError', 'queue.Empty', 'asyncio.QueueFull', 'KeyError'):
        for rexc in (True, False):
            cases.append({'kind': 'parmappers', 'n': 6, 'concurrency': 2, 'return_x': False, 'return_exceptions': rexc, 'fail_rate': 0, 'pre_class': cls, 'seed': rng.randrange(1 << 30)})
    for i in range(8 if tier == 'quick' else 120):
        cases.append({'kind': 'servers', 'n': rng.choice([1, 12, 40]), 'capacity': rng.choice([1, 2, 4, 16]),
                      'return_x': rng.random() < 0.5, 'return_exceptions': rng.random() < 0.6,
                      'reject_every': rng.choice([0, 3]), 'fail_every': rng.choice([0, 4]),
                      'threads': rng.choice([1, 3]), 'seed': rng.randrange(1 << 30)})
    # more callers than slots, equal service times (results come out back-to-back), no backpressure: the waiters of both
    # implementations must all be served
    for i in range(10 if tier == 'quick' else 150):
        cases.append({'kind': 'servers', 'n': 12, 'capacity': rng.choice([2, 2, 3]), 'return_x': False, 'return_exceptions': True,
                      'reject_every': 0, 'fail_every': 0, 'threads': 3, 'waiters': True, 'seed': rng.randrange(1 << 30)})
    # the same server object entered twice (AsyncServer: under a new event loop each time), callers waiting for room in both sessions
    for i in range(4 if tier == 'quick' else 60):
        cases.append({'kind': 'servers', 'n': 12, 'capacity': rng.choice([2, 3]), 'return_x': False, 'return_exceptions': True, 'sessions': 2,
                      'reject_every': [0, 3][i % 2], 'fail_every': [0, 4][i // 2 % 2], 'threads': 3, 'waiters': True, 'seed': rng.randrange(1 << 30)})
    # the time limit of a request that first has to wait for room
    for i in range(2 if tier == 'quick' else 8):
        cases.append({'kind': 'servers', 'deadline_after_wait': True, 'seed': rng.randrange(1 << 30)})
    # the submission of a stream element fails (no room within the stream's timeout), with and without a preprocessor
    for pre in (False, True):
        for rx in (False, True):
            for rexc in (False, True):
                if tier == 'quick' and rx and not pre:
                    continue
                cases.append({'kind': 'servers', 'backlog_stream': True, 'preproc': pre, 'return_x': rx, 'return_exceptions': rexc, 'seed': rng.randrange(1 << 30)})
    return cases


def _plan(plan, items):
    n = len(items)
    fail, reject = set(), set()
    if plan == 'fail':
        fail = {items[n // 2]}
    elif plan == 'reject-first':
        reject = {items[0]}
    elif plan == 'reject-last':
        reject = {items[-1]}
    elif plan == 'reject-mid':
        reject = {items[n // 2]}
    elif plan == 'reject-all':
        reject = set(items)
    elif plan == 'reject+fail':
        reject = {items[n // 2]}
        fail = {items[0]}
    return fail, reject


def _plan_subfail(plan, items):
    """(elements whose submission raises, force a preprocessor)"""
    n = len(items)
    if plan == 'submit-fail':
        return {items[n // 2]}, False
    if plan == 'submit-fail+pre':
        return {items[-1] if n > 1 else items[0]}, True
    if plan == 'reject+submit-fail':
        return {items[-1]}, True
    return set(), False


def _one_pair(S, items, cap, rx, rexc, fail, reject, preproc, pr, errval=(), subfail=()):
    """Run sync and async with the same ranking; return (sync_result, async_result, ooo flag)."""
    ctl = gates.Controller(priorities=pr, settle=0.001, max_settle=0.02).start()
    led = gates.Ledger()
    try:
        so = watch.run_bounded(lambda: H.run_fifo_direct(S, items, capacity=cap, return_x=rx, return_exceptions=rexc, fail=fail, errval=errval, subfail=subfail,
                                                          reject=reject, preproc=preproc, controller=ctl, ledger=led), 20, 'fifo_stream')
    finally:
        ctl.stop()
    sync_order = list(ctl.order)

    async def arun():
        actl = gates.AsyncController(priorities=pr).start()
        aled = gates.Ledger()
        try:
            r = await asyncio.wait_for(H.run_async_fifo_direct(S, items, capacity=cap, return_x=rx, return_exceptions=rexc, fail=fail, errval=errval, subfail=subfail,
                                                               reject=reject, preproc=preproc, controller=actl, ledger=aled), 20)
        finally:
            await actl.stop()
        return r, list(actl.order)

    try:
        (ao, aorder) = asyncio.run(arun())
    except asyncio.TimeoutError:
        return so[:2], ('HANG',), sync_order, []
    except Exception as e:  # noqa: BLE001
        return so[:2], ('CRASH', norm_exc(e), repr(e)), sync_order, []
    return so[:2], ao[:2], sync_order, aorder


def run_case(case):
    import mpservice.streamer._streamer as S

    kind = case['kind']
    viol = []
    obs = {'pairs': 0, 'pairs_with_rejection': 0, 'pairs_ooo': 0, 'outputs_compared': 0}
    sigs = []
    sample = None
    if kind in ('fifo-all-rankings', 'fifo-seeded'):
        n = case['n']
        items = list(range(500, 500 + n))
        errval = ()
        subfail, force_pre = set(), False
        if kind == 'fifo-all-rankings':
            fail, reject = _plan('reject-first' if case['plan'] == 'reject+submit-fail' else case['plan'], items)
            subfail, force_pre = _plan_subfail(case['plan'], items)
            rankings = list(itertools.permutations(range(n)))
        else:
            rng = random.Random(case['seed'])
            reject = {x for i, x in enumerate(items) if case['reject_every'] and i % case['reject_every'] == 0}
            fail = {x for x in items if rng.random() < case['fail_rate']} - reject
            # results that *are* exception objects (returned, not raised) are ordinary results in both variants
            errval = {x for x in items if case['seed'] % 3 == 0 and rng.random() < 0.2} - reject - fail
            # the submission of an element raises (with and without a preprocessor in front of it)
            subfail = ({x for x in items if rng.random() < 0.08} - reject) if case['seed'] % 4 == 1 else set()
            rankings = [gates.make_priorities(case['policy'], n, rng)]
        preproc = bool(reject) or force_pre or (kind == 'fifo-seeded' and case['reject_every'] > 0)
        exp = H.expected_outputs(items, fail, reject, case['return_x'], case['return_exceptions'], preproc, errval, subfail)
        for pr in rankings:
            try:
                s, a, so, ao = _one_pair(S, items, case['capacity'], case['return_x'], case['return_exceptions'], fail, reject, preproc, list(pr), errval, subfail)
            except watch.Hang as h:
                viol.append({'mech': 'sync/hang', 'msg': 'fifo_stream did not finish', 'stacks': h.stacks})
                return {'violations': viol, 'obs': obs, 'exit_after': True}
            obs['pairs'] += 1
            obs['outputs_compared'] += len(s[0])
            if reject:
                obs['pairs_with_rejection'] += 1
            ooo = any(so[i] > so[i + 1] for i in range(len(so) - 1)) or any(ao[i] > ao[i + 1] for i in range(len(ao) - 1))
            if ooo:
                obs['pairs_ooo'] += 1
            if (reject or fail) and ooo:
                sigs.append(hash((n, case['capacity'], case['return_x'], case['return_exceptions'], tuple(sorted(reject)), tuple(sorted(fail)), tuple(pr))) & 0xFFFFFFFFFFFF)
            detail = {'ranking': list(pr), 'sync_completion_order': so, 'async_completion_order': ao, 'rejected': sorted(reject), 'failing': sorted(fail)}
            if tuple(s) != tuple(a):
                mech = 'async_fifo_stream/differs-from-sync'
                if a[0] == 'HANG':
                    mech = 'async_fifo_stream/hang'
                elif reject:
                    mech = 'async_fifo_stream/rejected-element-wrong-outcome'
                viol.append({'mech': mech, 'msg': f'sync {s!r} vs async {a!r}', 'detail': detail})
                break
            if tuple(s) != tuple(exp):
                viol.append({'mech': 'fifo_stream/differs-from-reference', 'msg': f'sync {s!r} vs reference {exp!r}', 'detail': detail})
                break
            if sample is None and reject and ooo:
                sample = {'items': items, 'capacity': case['capacity'], 'rejected': sorted(reject), 'failing': sorted(fail),
                          'ranking': list(pr), 'sync_order': so, 'async_order': ao, 'outputs': repr(s)[:300]}
    elif kind == 'parmappers':
        from vlib import targets
        import mpservice.streamer._streamer_async as SA

        rng = random.Random(case['seed'])
        n = case['n']
        # failing calls raise the harness's Boom or one of the classes the library and asyncio use for their own control flow
        classes = [True, True, 'TimeoutError', 'queue.Empty', 'KeyError', 'EOFError', 'StopIteration', 'asyncio.QueueEmpty']
        items = [(i, rng.choice([0, 0.001, 0.003, 0.01]), (rng.choice(classes) if case['seed'] % 2 else True) if rng.random() < case['fail_rate'] else False) for i in range(n)]
        if case.get('force_class'):
            items[2] = (items[2][0], items[2][1], case['force_class'])
        kw = dict(concurrency=case['concurrency'], return_x=case['return_x'], return_exceptions=case['return_exceptions'])
        if case.get('pre_class'):
            pre_cls = targets.handler_exc_class(case['pre_class'])

            def pre(x):
                if x[0] == 1:
                    raise pre_cls('pre', x[0])
                return x

            kw['preprocessor'] = pre
            obs['pairs_with_rejection'] += 3

        def canon(r):
            # StopIteration cannot travel through a generator / coroutine / asyncio future as itself: every variant delivers it as *some*
            # error in that element's place (the class differs by language rule); everything else must be identical
            def c(z):
                if isinstance(z, tuple) and len(z) == 3 and z[0] == 'EXC' and (z[1] == 'StopIteration' or (z[1] == 'RuntimeError' and 'StopIteration' in repr(z[2]))):
                    return ('EXC', 'StopIteration-or-its-RuntimeError')
                if isinstance(z, (tuple, list)):
                    return type(z)(c(a) for a in z)
                return z
            return c(tuple(r))
        led = gates.Ledger()

        def sync_sync():
            return H.consume(iter(S.Stream(items).parmap(targets.proc_work, executor='thread', **kw)), led)

        def sync_async():
            return H.consume(iter(S.Stream(items).parmap(targets.async_work, **kw)), led)

        async def a_main(func, **extra):
            async def src():
                for x in items:
                    yield x

            st = SA.AsyncStream(src()).parmap(func, **kw, **extra)
            return await H.aconsume(st.__aiter__(), led)

        try:
            r0 = watch.run_bounded(sync_sync, 40, 'Parmapper')
            r1 = watch.run_bounded(sync_async, 40, 'ParmapperAsync')
            r2 = watch.run_bounded(lambda: asyncio.run(a_main(targets.proc_work, executor='thread')), 40, 'AsyncParmapper')
            r3 = watch.run_bounded(lambda: asyncio.run(a_main(targets.async_work)), 40, 'AsyncParmapperAsync')
        except watch.Hang as h:
            viol.append({'mech': 'parmappers/hang', 'msg': h.what, 'stacks': h.stacks})
            return {'violations': viol, 'obs': obs, 'exit_after': True}
        obs['pairs'] += 3
        obs['outputs_compared'] += len(r0[0]) * 3
        for name, r in (('ParmapperAsync', r1), ('AsyncParmapper', r2), ('AsyncParmapperAsync', r3)):
            if canon(r) != canon(r0):
                viol.append({'mech': f'{name}/differs-from-Parmapper', 'msg': f'Parmapper {r0!r}'[:400] + f' vs {name} {r!r}'[:400]})
        sigs.append(hash(('parmappers', case['seed'])) & 0xFFFFFFFFFFFF)
        sample = {'kind': 'parmappers', 'n': n, 'concurrency': case['concurrency'], 'failing': sum(1 for x in items if x[2]), 'outputs': len(r0[0])}
    elif kind == 'servers':
        from checks import c16_servers

        return c16_servers.run(case, obs)
    return {'violations': viol, 'obs': obs, 'sigs': sigs, 'nontrivial': bool(sigs), 'sample': sample}


def decide_inconclusive(obs, results, cases):
    if obs.get('pairs_with_rejection', 0) == 0 or obs.get('pairs_ooo', 0) == 0:
        return 'no differential pair had a preprocessor rejection / an out-of-order completion'
    return None


RULE = RULE + '; results that are exception objects; submissions that raise; failing calls of the four parmappers raise 7 classes incl. StopIteration (normalised: it cannot travel as itself)'
