"""C04 — a failing request fails alone, with its original error (type, args, failure-site traceback)."""
from __future__ import annotations

import random
import shutil
import tempfile
import threading
import time
import traceback

from vlib import schedfuzz, srvharness as SH, srvtargets as ST, targets, watch

PROPERTY = 'C04'
LEVEL = 'fault_enumeration'
RULE = ('enumeration: servlet shape {thread/process leaf, batched leaf, 3-stage sequential mixing threads and processes, ensemble fail_fast +/- with 2-3 '
        'members, ensemble followed by a stage} x failure site {preprocess, call, poisoned batch; stage 1..3; every non-empty subset of ensemble members} '
        'x failing positions {first, last, adjacent pair, every 3rd, all, none} x callers {1 sequential, 4-8 concurrent} under the schedule fuzzer on the '
        'worker loops (in-child for process leaves). Oracle per request: reference outcome of its own token; failing requests: original type and args and '
        'the failure-site marker in the traceback (object traceback in-thread, remote traceback text across a process); batch failures are compared '
        'with the batch membership logged by the instrumented call. non-trivial = fault plan with >=1 failing and >=1 succeeding request; '
        'distinct = distinct (shape, site, positions, callers)')
ASSUMPTIONS = ['the failure-site marker is a comment on the raising source line of the instrumented worker, so it appears in any faithful traceback rendering',
               'a non-fail-fast ensemble member failure may surface as the exception or as its RemoteException wrapper']
CASE_TIMEOUT = 240
PARALLEL = 14
GROUP = 1
BOUND = 90
EXHAUSTIVE = {'quick': False, 'thorough': True}


# a class name, None = the harness's own Boom, an int = Boom raised that many call levels below call() (deep stacks)
FAIL_CLASSES = [None, 'TimeoutError', 14, 'queue.Empty', 'KeyError', 40, 'MpTimeout', 'ConnectionResetError', 'EOFError', 3, 'LookupError', 'asyncio.QueueEmpty', 'BrokenPipeError', 'TwoArgInit']


def shapes(tier):
    out = []
    for k in ('T', 'P'):
        out.append((f'{k}-leaf', [k, 'A', 2, 0, {}]))
        out.append((f'{k}-batched', [k, 'A', 2, 3, {}]))
        out.append((f'{k}-batch1', [k, 'A', 1, 1, {}]))
    out.append(('seq-TTT', ['Seq', [['T', 'A', 1, 0, {}], ['T', 'B', 2, 3, {}], ['T', 'C', 1, 0, {}]]]))
    out.append(('seq-TPT', ['Seq', [['T', 'A', 1, 0, {}], ['P', 'B', 2, 0, {}], ['T', 'C', 1, 0, {}]]]))
    out.append(('seq-PTP', ['Seq', [['P', 'A', 1, 3, {}], ['T', 'B', 1, 0, {}], ['P', 'C', 1, 0, {}]]]))
    for ff in (True, False):
        out.append((f'ens2-ff{int(ff)}', ['Ens', ff, [['T', 'A', 1, 0, {}], ['T', 'B', 2, 0, {}]]]))
        out.append((f'ens3-ff{int(ff)}', ['Ens', ff, [['T', 'A', 1, 0, {}], ['T', 'B', 1, 3, {}], ['T', 'C', 1, 0, {}]]]))
        out.append((f'ensP-ff{int(ff)}', ['Ens', ff, [['P', 'A', 1, 0, {}], ['T', 'B', 1, 0, {}]]]))
        out.append((f'ens-then-stage-ff{int(ff)}', ['Seq', [['Ens', ff, [['T', 'A', 1, 0, {}], ['T', 'B', 1, 0, {}]]], ['T', 'D', 1, 0, {}]]]))
    # an error (plain or EnsembleError) that has to cross two or three more process boundaries after the stage where it arose
    out.append(('seq-PPP', ['Seq', [['P', 'A', 1, 0, {}], ['P', 'B', 1, 0, {}], ['P', 'C', 1, 0, {}]]]))
    for ff in (True, False):
        out.append((f'ensTP-then-P-ff{int(ff)}', ['Seq', [['Ens', ff, [['T', 'A', 1, 0, {}], ['P', 'B', 1, 0, {}]]], ['P', 'D', 1, 0, {}]]]))
        out.append((f'ens-then-PP-ff{int(ff)}', ['Seq', [['Ens', ff, [['T', 'A', 1, 0, {}], ['T', 'B', 1, 0, {}]]], ['P', 'D', 1, 0, {}], ['P', 'E', 1, 0, {}]]]))
    # a failure that arrives at a composite from an upstream stage (raw exception through a thread queue, RemoteException through a pipe)
    out.append(('T-then-ens', ['Seq', [['T', 'A', 1, 0, {}], ['Ens', False, [['T', 'B', 1, 0, {}], ['T', 'C', 1, 0, {}]]]]]))
    out.append(('T-then-sw', ['Seq', [['T', 'A', 2, 0, {}], ['Sw', [['T', 'B', 1, 0, {}], ['T', 'C', 1, 3, {}]]]]]))
    out.append(('P-then-ensTP', ['Seq', [['P', 'A', 1, 0, {}], ['Ens', True, [['T', 'B', 1, 0, {}], ['P', 'C', 1, 0, {}]]]]]))
    out.append(('T-then-swTP-then-T', ['Seq', [['T', 'A', 1, 0, {}], ['Sw', [['T', 'B', 1, 0, {}], ['P', 'C', 1, 0, {}]]], ['T', 'D', 1, 0, {}]]]))
    out.append(('P-ensPT-PTP', ['Seq', [['P', 'A', 1, 0, {}], ['Ens', False, [['P', 'B', 1, 0, {}], ['T', 'C', 1, 0, {}]]], ['P', 'D', 1, 0, {}], ['T', 'E', 1, 0, {}], ['P', 'F', 1, 0, {}]]]))
    return out


def gen_cases(tier, seed):
    rng = random.Random(seed)
    cases = []
    positions = ['first', 'last', 'pair', 'every3', 'all', 'none']
    for name, tree in shapes(tier):
        lv = SH.leaves(tree)
        sites = []
        for leaf in lv:
            if not leaf[3]:
                sites.append([(leaf[1], 'constmix')])
            sites.append([(leaf[1], 'reject')])
            sites.append([(leaf[1], 'poison' if leaf[3] else 'fail')])
        ens = tree if tree[0] == 'Ens' else next((ch for ch in tree[1] if ch[0] == 'Ens'), None) if tree[0] == 'Seq' else None
        if ens is not None:
            members = [m[1] for m in ens[2]]
            # subsets of members failing together (incl. all members)
            for r in range(2, len(members) + 1):
                import itertools

                for sub in itertools.combinations(members, r):
                    sites.append([(m, 'fail') for m in sub])
        for site in sites:
            for pos in positions:
                for callers in (1, 5):
                    c = {'shape': name, 'tree': tree, 'site': site, 'positions': pos, 'callers': callers, 'n': 12,
                         'fuzz': True, 'seed': rng.randrange(1 << 30)}
                    cases.append(c)
    if tier == 'quick':
        # process shapes are expensive to start: sample them; keep every thread-only plan
        thr = [c for c in cases if not SH.has_process(c['tree'])]
        prc = [c for c in cases if SH.has_process(c['tree'])]
        rng.shuffle(prc)
        rng.shuffle(thr)
        # stratified by shape: every process shape is represented (failing plans first: 'none' positions are the least informative)
        by_shape = {}
        for c in prc:
            by_shape.setdefault(c['shape'], []).append(c)
        picked = []
        k = 0
        while len(picked) < 48 and any(by_shape.values()):
            for name in sorted(by_shape):
                lst = by_shape[name]
                if lst:
                    lst.sort(key=lambda c: c['positions'] == 'none')
                    picked.append(lst.pop(0))
            k += 1
        cases = thr[:260] + picked[:48]
    rng.shuffle(cases)
    cases += [{'kind': 'async-classes', 'leaf': 'T'}, {'kind': 'async-classes', 'leaf': 'P'}]
    for layout in ('P', 'TP'):
        for where in ('input', 'result', 'raise', 'input-unloadable', 'result-unloadable'):
            cases.append({'kind': 'untransportable', 'layout': layout, 'where': where})
    return cases


def failing_indices(pos, n):
    return {'first': {0}, 'last': {n - 1}, 'pair': {n // 2, n // 2 + 1}, 'every3': set(range(0, n, 3)), 'all': set(range(n)), 'none': set()}[pos]


def site_text_ok(e):
    """Does exception-like `e` carry the failure-site traceback?"""
    from mpservice.multiprocessing.remote_exception import RemoteException, get_remote_traceback, is_remote_exception

    if isinstance(e, RemoteException):
        return ST.MARK in (e.tb or '')
    if getattr(e, '__traceback__', None) is not None:
        if ST.MARK in ''.join(traceback.format_exception(type(e), e, e.__traceback__)):
            return True
    if is_remote_exception(e):
        return ST.MARK in get_remote_traceback(e)
    return False


def walk_exceptions(o, out):
    from mpservice.multiprocessing.remote_exception import EnsembleError, RemoteException

    if isinstance(o, EnsembleError):
        for y in o.args[1]['y']:
            walk_exceptions(y, out)
        return
    if isinstance(o, (BaseException, RemoteException)):
        inner = o.exc if isinstance(o, RemoteException) else o
        if isinstance(inner, EnsembleError):
            walk_exceptions(inner, out)
        else:
            out.append(o)
        return
    if isinstance(o, (list, tuple)):
        for a in o:
            walk_exceptions(a, out)


def _async_classes(case):
    """AsyncServer: a worker call raising each of the classes (incl. StopIteration, which an asyncio Future refuses) fails that request
    only, promptly, with the original class (StopIteration: a RuntimeError caused by it, as from a generator); the others are answered."""
    import asyncio

    from mpservice.mpserver import AsyncServer, ProcessServlet, ThreadServlet
    from vlib.targets import handler_exc_class

    viol = []
    obs = {'lifetimes': 1, 'requests': 0, 'failed_requests': 0, 'ok_requests': 0, 'async_class_lifetimes': 1}
    classes = [c for c in FAIL_CLASSES if c and not isinstance(c, int) and c != 'TwoArgInit'] + ['StopIteration']
    servlet = (ProcessServlet if case['leaf'] == 'P' else ThreadServlet)(ST.TagWorker, tag='A')

    async def main():
        async with AsyncServer(servlet, capacity=8) as server:
            for i, cls in enumerate(classes):
                for t, want in ((('tok', 0, 2 * i, (('A', 'fail', cls),)), cls), (('tok', 0, 2 * i + 1, ()), None)):
                    t0 = time.monotonic()
                    try:
                        y = await server.call(t, timeout=8)
                    except Exception as e:  # noqa: BLE001
                        y = e
                    el = time.monotonic() - t0
                    obs['requests'] += 1
                    if want is None:
                        obs['ok_requests'] += 1
                        if y != ('A', t):
                            viol.append({'mech': 'failalone/innocent-request-failed', 'msg': f'AsyncServer: request after a call that raised {cls} got {y!r}'})
                        continue
                    obs['failed_requests'] += 1
                    ecls = handler_exc_class(want)
                    ok = type(y) is ecls and tuple(y.args) == ('A', (0, 2 * i))
                    if want == 'StopIteration':
                        ok = isinstance(y, RuntimeError) and isinstance(y.__cause__, StopIteration)
                    if not ok:
                        mech = 'failalone/failure-not-delivered' if el > 6 else 'failalone/wrong-error'
                        viol.append({'mech': mech, 'msg': f'AsyncServer ({case["leaf"]} leaf): call raising {want}("A", (0, {2 * i})) was reported after {el:.2f}s as {y!r}'})

    try:
        watch.run_bounded(lambda: asyncio.run(main()), BOUND, 'AsyncServer lifetime')
    except watch.Hang as h:
        viol.append({'mech': 'failalone/hang', 'msg': 'AsyncServer lifetime did not finish', 'stacks': h.stacks})
        return {'violations': viol, 'obs': obs, 'exit_after': True}
    return {'violations': viol[:5], 'obs': obs, 'nontrivial': True, 'sig': hash(('async-classes', case['leaf'])) & 0xFFFFFFFFFFFF, 'exit_after': case['leaf'] == 'P',
            'sample': {'kind': 'async-classes', 'leaf': case['leaf'], 'classes': len(classes), 'requests': obs['requests']}}


def _untransportable(case):
    """A request whose input, result or exception payload cannot be pickled -- with each of the error classes a pickling attempt may end in --
    between ordinary requests issued concurrently: it must fail alone, with an error (not a timeout) that names the pickling failure."""
    from mpservice.mpserver import ProcessServlet, SequentialServlet, Server, ThreadServlet

    viol = []
    obs = {'lifetimes': 1, 'requests': 0, 'failed_requests': 0, 'ok_requests': 0, 'untransportable_lifetimes': 1, 'process_lifetimes': 1}
    if case['layout'] == 'P':
        servlet = ProcessServlet(ST.TagWorker, tag='A', cpus=[0, 1])
        bad_tag = 'A'
    else:
        servlet = SequentialServlet(ThreadServlet(ST.TagWorker, tag='A', num_threads=2), ProcessServlet(ST.TagWorker, tag='B', cpus=[0]))
        bad_tag = 'A' if case['where'] != 'raise' else 'B'
    kinds = ['pickling', 'runtime', 'recursion', 'value', 'notimpl']
    marker = 'vf-unpicklable'
    if case['where'].endswith('unloadable'):
        kinds = ['value', 'type', 'runtime', 'import']
        marker = 'vf-unloadable'
    results = {}
    lock = threading.Lock()

    def body():
        with Server(servlet, capacity=32) as server:
            for rd, kind in enumerate(kinds):
                if case['where'] == 'input':
                    bad = ('tok', 9, rd, (('_', 'unpicklable', targets.Unpicklable(kind)),))
                elif case['where'] == 'result':
                    bad = ('tok', 9, rd, ((bad_tag, 'return-unpicklable', kind),))
                elif case['where'] == 'input-unloadable':
                    bad = ('tok', 9, rd, (('_', 'unloadable', targets.Unloadable(kind)),))  # pickles in this process, cannot be rebuilt in the worker process
                elif case['where'] == 'result-unloadable':
                    bad = ('tok', 9, rd, (('B' if case['layout'] == 'TP' else 'A', 'return-unloadable', kind),))  # returned by a process worker, cannot be rebuilt in this process
                else:
                    bad = ('tok', 9, rd, ((bad_tag, 'raise-unpicklable', kind),))
                reqs = [('tok', rd, i, ((bad_tag, 'sleep', 0.01),)) for i in range(3)] + [bad] + [('tok', rd, i, ()) for i in range(3, 6)]

                def one(t):
                    t0 = time.monotonic()
                    try:
                        y = server.call(t, timeout=6)
                    except BaseException as e:  # noqa: BLE001
                        y = e
                    with lock:
                        results[(rd, t[1], t[2])] = (t, y, time.monotonic() - t0, kind)

                ths = [threading.Thread(target=one, args=(t,)) for t in reqs]
                for th in ths:
                    th.start()
                    time.sleep(0.005)
                for th in ths:
                    th.join()

    try:
        watch.run_bounded(body, BOUND + 40, 'server lifetime with untransportable requests')
    except watch.Hang as h:
        viol.append({'mech': 'failalone/hang', 'msg': 'lifetime did not finish', 'stacks': h.stacks})
        return {'violations': viol, 'obs': obs, 'exit_after': True}
    except BaseException as e:  # noqa: BLE001
        viol.append({'mech': 'failalone/server-broken-by-untransportable-request', 'msg': f'{case["layout"]} / {case["where"]}: the server lifetime raised {e!r}'[:400]})
    for (rd, c, i), (t, y, el, kind) in sorted(results.items()):
        obs['requests'] += 1
        if c == 9:
            obs['failed_requests'] += 1
            if not isinstance(y, BaseException) or el > 5 or marker not in (repr(y) + repr(getattr(y, '__cause__', ''))):
                viol.append({'mech': 'failalone/failure-not-delivered' if el > 5 else 'failalone/wrong-error',
                             'msg': f'{case["layout"]}: request whose {case["where"]} cannot be pickled ({kind}: the attempt raises that class) got {y!r} after {el:.2f}s; expected an error naming the pickling failure'[:500]})
        else:
            obs['ok_requests'] += 1
            if isinstance(y, BaseException):
                viol.append({'mech': 'failalone/innocent-request-failed', 'msg': f'{case["layout"]}: ordinary request {t[1:3]} issued next to one whose {case["where"]} cannot be pickled ({kind}) got {y!r}'[:500]})
    return {'violations': viol[:5], 'obs': obs, 'nontrivial': True, 'sig': hash(('untransportable', case['layout'], case['where'])) & 0xFFFFFFFFFFFF, 'exit_after': True,
            'sample': {'kind': 'untransportable', 'layout': case['layout'], 'where': case['where'], 'requests': obs['requests']}}


def run_case(case):
    if case.get('kind') == 'async-classes':
        return _async_classes(case)
    if case.get('kind') == 'untransportable':
        return _untransportable(case)
    import mpservice.mpserver._worker as W
    from mpservice.mpserver import Server

    tree = case['tree']
    viol = []
    n = case['n']
    obs = {'lifetimes': 1, 'requests': 0, 'failed_requests': 0, 'ok_requests': 0, 'tracebacks_checked': 0, 'remote_tracebacks_checked': 0,
           'poisoned_batches_logged': 0, 'ensemble_errors': 0, 'process_lifetimes': 1 if SH.has_process(tree) else 0}
    fidx = failing_indices(case['positions'], n)
    SH.POISONERS.clear()
    ST.CALL_LOG.clear()
    per_caller = []
    for c in range(case['callers']):
        toks = []
        for s in range(n):
            # the class a failing call raises varies with the request (None = the harness's own Boom)
            cls = FAIL_CLASSES[(c * 7 + s) % len(FAIL_CLASSES)]
            plan = tuple((tag, act, cls if act == 'fail' else None) for tag, act in case['site']) if s in fidx else ()
            if plan and case['site'][0][1] == 'constmix':
                # failures of equal content (same class, same message) from two different sites of the same worker
                plan = ((case['site'][0][0], 'reject' if (c + s) % 2 else 'fail', 'const'),)
            toks.append(('tok', c, s, plan))
            for tag, act, _ in plan:
                if act == 'poison':
                    SH.POISONERS.setdefault(tag, set()).add((c, s))
        per_caller.append(toks)
    log_dir = tempfile.mkdtemp(prefix='vf-c04-')
    fz = schedfuzz.SchedFuzz(seed=case['seed'], p=0.02, changepoints=1, changepoint_delay=0.005) if case['fuzz'] else schedfuzz.NullFuzz()
    SH.fuzz_targets(fz)
    outcomes = {}
    lock = threading.Lock()
    servlet = SH.build(tree, log_dir=log_dir, fuzz_child=(case['seed'] % 1000 + 1))
    server = Server(servlet, capacity=64)

    def caller(c):
        toks = per_caller[c]
        if c % 2 == 1:
            for x, y in server.stream(iter(toks), return_x=True, return_exceptions=True, timeout=60):
                with lock:
                    outcomes[(x[1], x[2])] = y
        else:
            for t in toks:
                try:
                    y = server.call(t, timeout=60, backpressure=False)
                except BaseException as e:  # noqa: BLE001
                    y = e
                with lock:
                    outcomes[(t[1], t[2])] = y

    def lifetime():
        with server:
            with fz:
                ths = [threading.Thread(target=caller, args=(c,), name=f'caller-{c}') for c in range(case['callers'])]
                for t in ths:
                    t.start()
                for t in ths:
                    t.join()

    try:
        watch.run_bounded(lifetime, BOUND, 'server lifetime')
    except watch.Hang as h:
        viol.append({'mech': 'failalone/hang', 'msg': f'server lifetime did not finish ({len(outcomes)} outcomes so far); stacks stable', 'stacks': h.stacks})
        shutil.rmtree(log_dir, ignore_errors=True)
        return {'violations': viol, 'obs': obs, 'exit_after': True, 'fuzz': fz.stats()}
    except watch.Inconclusive as e:
        shutil.rmtree(log_dir, ignore_errors=True)
        return {'violations': [], 'obs': obs, 'inconclusive': str(e), 'exit_after': True}
    calls = [tuple(c) for c in ST.read_call_logs(log_dir)]
    shutil.rmtree(log_dir, ignore_errors=True)

    from mpservice.multiprocessing.remote_exception import EnsembleError, RemoteException, is_remote_exception

    const_seen = {}
    data_crossed_process = False
    if tree[0] == 'Seq':
        seen_ens = False
        for ch in tree[1]:
            if seen_ens and SH.has_process(ch):
                data_crossed_process = True
            seen_ens = seen_ens or ch[0] == 'Ens'
    for toks in per_caller:
        for t in toks:
            i = (t[1], t[2])
            obs['requests'] += 1
            if i not in outcomes:
                viol.append({'mech': 'failalone/no-outcome', 'msg': f'request {i} has no outcome'})
                continue
            y = outcomes[i]
            got = SH.norm_outcome(y)
            ok, exp = SH.judge_outcome(tree, t, got)
            if not ok and any(a == 'fail' and arg == 'TwoArgInit' for _, a, arg in t[3]):
                # a class that pickles but cannot be rebuilt (its constructor wants two arguments, args holds one string): where the failure
                # crossed a process boundary the original class cannot arrive; it must still be an error for this request only, naming the class
                r = repr(got)
                if "'EXC', 'TwoArgInit'" in r or 'could not be rebuilt' in r:
                    obs['unrebuildable_exceptions_delivered'] = obs.get('unrebuildable_exceptions_delivered', 0) + 1
                    obs['failed_requests'] += 1
                    continue
            should_fail = bool(t[3])
            if not ok:
                if not should_fail and SH._is_exc_got(got):
                    mech = 'failalone/innocent-request-failed'
                elif should_fail and not SH._is_exc_got(got) and not isinstance(got, list):
                    mech = 'failalone/failure-not-delivered'
                elif should_fail:
                    mech = 'failalone/wrong-error'
                else:
                    mech = 'failalone/wrong-result'
                viol.append({'mech': mech, 'msg': f'{case["shape"]} site {case["site"]} positions {case["positions"]}: request {i} got {got!r}'[:600] + f'; expected {exp!r}'[:300]})
                continue
            excs = []
            walk_exceptions(y, excs)
            if excs and not isinstance(y, BaseException) and data_crossed_process:
                # a partially failed non-fail-fast ensemble *succeeds* with a list that holds the member's exception object; stages after
                # the ensemble handle that list as their own data, and what a user's process worker returns is pickled as plain data --
                # the statement is about outcomes delivered as exceptions, so embedded objects are only checked when no process stage follows
                obs['embedded_exceptions_in_results_after_process_stage'] = obs.get('embedded_exceptions_in_results_after_process_stage', 0) + len(excs)
                obs['failed_requests'] += 1
                continue
            if isinstance(y, EnsembleError):
                obs['ensemble_errors'] += 1
            if excs:
                obs['failed_requests'] += 1
            else:
                obs['ok_requests'] += 1
            const = next(((a, arg) for _, a, arg in t[3] if arg == 'const'), None)
            if const and excs:
                # equal-content failures: each request's error still names ITS failure site, and no two requests share an exception object
                from mpservice.multiprocessing.remote_exception import get_remote_traceback as _grt

                e0 = excs[0]
                txt = (e0.tb if isinstance(e0, RemoteException) else (_grt(e0) if is_remote_exception(e0) else ''.join(traceback.format_exception(type(e0), e0, e0.__traceback__)))) or ''
                want, other = ('preprocess-const', 'call-const') if const[0] == 'reject' else ('call-const', 'preprocess-const')
                obs['equal_content_failures'] = obs.get('equal_content_failures', 0) + 1
                if other in txt and want not in txt:
                    viol.append({'mech': 'failalone/traceback-of-another-failure', 'msg': f'request {i} failed in {want.split("-")[0]} but its error carries the traceback of a failure in {other.split("-")[0]} (another request\'s)'})
                    break
                key = id(e0.exc if isinstance(e0, RemoteException) else e0)
                if key in const_seen and const_seen[key] != i and SH.has_process(tree):
                    viol.append({'mech': 'failalone/exception-object-shared', 'msg': f'requests {const_seen[key]} and {i} were handed the very same exception object'})
                    break
                const_seen[key] = i
            for e in excs:
                obs['tracebacks_checked'] += 1
                if isinstance(e, RemoteException) or is_remote_exception(e):
                    obs['remote_tracebacks_checked'] += 1
                if not site_text_ok(e):
                    viol.append({'mech': 'failalone/traceback-lost', 'msg': f'request {i}: {e!r} does not carry the traceback of the failure site '
                                 f'(has __traceback__: {getattr(e, "__traceback__", None) is not None}, remote: {isinstance(e, RemoteException) or is_remote_exception(e)})'})
                    break
    # batch failures hit exactly the members of the failing batch
    batchboom_of = {}
    for i, y in outcomes.items():
        excs = []
        walk_exceptions(y, excs)
        for e in excs:
            inner = e.exc if isinstance(e, RemoteException) else e
            if type(inner).__name__ == 'BatchBoom':
                batchboom_of.setdefault(i, []).append((inner.args[0], tuple(tuple(v) for v in inner.args[1])))
    poisoned_logged = set()
    for tag, widx, ids, batched in calls:
        if not batched or not isinstance(ids, list):
            continue
        idt = tuple(tuple(v) for v in ids if isinstance(v, (list, tuple)))
        if set(idt) & SH.POISONERS.get(tag, set()):
            obs['poisoned_batches_logged'] += 1
            poisoned_logged.add((tag, idt))
            for m in idt:
                if (tag, idt) not in batchboom_of.get(m, []):
                    viol.append({'mech': 'failalone/batch-member-did-not-fail', 'msg': f'batch {idt} at {tag} raised, but member {m} got {SH.norm_outcome(outcomes.get(m))!r}'[:500]})
                    break
    for i, lst in batchboom_of.items():
        for tag, idt in lst:
            if (tag, idt) not in poisoned_logged:
                viol.append({'mech': 'failalone/batch-error-outside-batch', 'msg': f'request {i} failed with the error of batch {idt} at {tag}, which is not a logged failing batch containing it'})
                break
            if i not in idt:
                viol.append({'mech': 'failalone/batch-error-outside-batch', 'msg': f'request {i} received the error of batch {idt} it was not a member of'})
                break
    st = fz.stats()
    res = {'violations': viol[:6], 'obs': obs, 'fuzz': st if case['fuzz'] else None, 'nontrivial': obs['failed_requests'] > 0 and obs['ok_requests'] > 0,
           'sig': hash((case['shape'], repr(case['site']), case['positions'], case['callers'])) & 0xFFFFFFFFFFFF,
           'sample': {'shape': case['shape'], 'site': case['site'], 'positions': case['positions'], 'callers': case['callers'],
                      'failed': obs['failed_requests'], 'ok': obs['ok_requests'], 'tracebacks_checked': obs['tracebacks_checked'],
                      'poisoned_batches': obs['poisoned_batches_logged']}}
    if viol or SH.has_process(tree):
        res['exit_after'] = True
    return res


def decide_inconclusive(obs, results, cases):
    if obs.get('failed_requests', 0) == 0 or obs.get('remote_tracebacks_checked', 0) == 0:
        return 'no failing request / no remote traceback was observed'
    if obs.get('poisoned_batches_logged', 0) == 0 or obs.get('ensemble_errors', 0) == 0:
        return 'no failing batch / no EnsembleError was observed'
    return None


RULE = RULE + '; failing calls raise 13 classes (control-flow classes, an unrebuildable class) and fail 3-40 call levels below call(); composites behind a failing stage; 1-3 process stages behind an ensemble; AsyncServer class cases incl. StopIteration'
