"""C14 — proxy calls behave like direct calls on the hosted object."""
from __future__ import annotations

import pickle
import random
import threading

from vlib import watch
from vlib.targets import Boom, norm_exc

PROPERTY = 'C14'
LEVEL = 'exploration'
RULE = ('seeded operation sequences on hosted list / dict / Namespace / Value / custom Box issued through 1-3 proxies (copies) held by the harness process and '
        '1-2 agent processes, ~25% of the operations chosen to raise; the same sequence is applied to a local object of the same class and results / raised '
        '(type, args) are compared step by step; raised exceptions must be remote exceptions with the server-side traceback and the next call on the same '
        'connection must succeed; values returned via managed_*() are mutated through the returned proxy and read back inside the server; concurrent phases '
        '(1-4 threads) use per-key-partitioned or commutative operations. non-trivial = sequence with >=1 raising operation and >=2 proxies in >=2 processes; '
        'distinct = distinct (kind, seed); bare managed() of a list and of a registered user class (twice per sequence); proxies stored in a hosted object and used inside the server, incl. a raising call')
ASSUMPTIONS = ['the local reference object is of the same class the server hosts (list, dict, multiprocessing.managers.Namespace / Value, vlib.mgrtargets.Box)',
               'concurrent phases are restricted to commutative / key-partitioned operations so that the sequential model stays an exact oracle']
CASE_TIMEOUT = 240
PARALLEL = 10
GROUP = 1
BOUND = 120


def gen_cases(tier, seed):
    rng = random.Random(seed)
    n = 40 if tier == 'quick' else 600
    cases = [{'kind': rng.choice(['list', 'dict', 'namespace', 'value', 'box', 'managed', 'concurrent']), 'ops': rng.choice([60, 150, 300]),
              'agents': rng.choice([1, 2]), 'seed': rng.randrange(1 << 30)} for _ in range(n)]
    cases += [{'kind': 'init-managed', 'ops': 0, 'agents': 1 + i, 'seed': i} for i in range(2)]
    cases += [{'kind': 'two-managers', 'ops': 0, 'agents': 1, 'seed': i} for i in range(2 if tier == 'quick' else 12)]
    cases += [{'kind': 'one-typeid-two-classes', 'first': f, 'ops': 0, 'agents': 1, 'seed': i} for i, f in enumerate(['counter', 'stack'])]
    # proxy lifetimes interleaved with calls (always present)
    cases += [{'kind': 'lifetimes', 'ops': rng.choice([150, 300]), 'agents': 1 + i % 2, 'seed': rng.randrange(1 << 30)} for i in range(4 if tier == 'quick' else 60)]
    return cases


ARGS = [0, 1, -5, 2.5, 'a', '', 'text', None, True, (1, 2), [1, [2, 3]], {'k': 'v'}, b'bytes', b'', ('t', None), 10 ** 20]


def gen_op(kind, rng, local):
    """(method, args, kwargs) — sometimes chosen to raise on the current state."""
    a = lambda: rng.choice(ARGS)  # noqa: E731
    if kind == 'list':
        n = len(local)
        r = rng.random()
        if r < 0.25:
            return rng.choice([('pop', [], None) if n == 0 else ('pop', [n + 3], None), ('__getitem__', [n + 1], None), ('remove', ['missing'], None),
                               ('index', ['missing'], None), ('__delitem__', [n], None), ('insert', [], None), ('__setitem__', [n + 2, 1], None), ('sort', [], None)])
        return rng.choice([('append', [a()], None), ('append', [a()], None), ('extend', [[a(), a()]], None), ('insert', [rng.randrange(-1, n + 1), a()], None),
                           ('__len__', [], None), ('count', [a()], None), ('__contains__', [a()], None), ('reverse', [], None), ('@iter', [], None), ('@str', [], None),
                           ('pop', [], None) if n else ('__len__', [], None), ('__getitem__', [rng.randrange(n)], None) if n else ('__len__', [], None),
                           ('__setitem__', [rng.randrange(n), a()], None) if n else ('append', [a()], None), ('__mul__', [2], None), ('__add__', [[a()]], None),
                           ('@iadd', [[a()]], None), ('__imul__', [2], None) if n < 50 else ('__len__', [], None),
                           ('@imul', [2], None) if n < 50 else ('@imul', [1], None), ('@iadd-check', [[a()]], None)])
    if kind == 'dict':
        keys = list(local)
        k = lambda: rng.choice(['a', 'b', 1, (1, 2), 'z', None])  # noqa: E731
        r = rng.random()
        if r < 0.25:
            return rng.choice([('__getitem__', ['missing'], None), ('pop', ['missing'], None), ('__delitem__', ['missing'], None), ('popitem', [], None) if not keys else ('__getitem__', ['nope'], None),
                               ('__setitem__', [[1, 2], 1], None), ('update', [5], None)])
        return rng.choice([('__setitem__', [k(), a()], None), ('__setitem__', [k(), a()], None), ('get', [k()], None), ('get', [k(), 'dflt'], None), ('__len__', [], None),
                           ('__contains__', [k()], None), ('keys', [], None), ('values', [], None), ('items', [], None), ('@str', [], None), ('pop', [k(), None], None), ('setdefault', [k(), a()], None),
                           ('update', [{k(): a()}], None), ('copy', [], None), ('clear', [], None) if rng.random() < 0.2 else ('__len__', [], None),
                           ('popitem', [], None) if keys else ('__len__', [], None)])
    if kind == 'namespace':
        names = ['x', 'y', 'long_name']
        r = rng.random()
        if r < 0.25:
            return rng.choice([('@getattr', ['missing'], None), ('@delattr', ['missing'], None)])
        return rng.choice([('@setattr', [rng.choice(names), a()], None), ('@setattr', [rng.choice(names), a()], None),
                           ('@getattr', [rng.choice(names)], None) if hasattr(local, 'x') and hasattr(local, 'y') and hasattr(local, 'long_name') else ('@setattr', [rng.choice(names), 1], None)])
    if kind == 'value':
        return rng.choice([('@value-set', [a()], None), ('@value-get', [], None), ('get', [], None), ('set', [a()], None)])
    if kind == 'box':
        r = rng.random()
        if r < 0.25:
            return rng.choice([('boom', ['a', rng.randrange(9)], None), ('boom', [], None), ('add', ['x'], None), ('add', [1], {'nope': 2}), ('set', [], None), ('add', [], None),
                               ('leave', [rng.choice([0, 3, 'bye'])], None)])
        return rng.choice([('get', [], None), ('set', [a()], None), ('add', [rng.randrange(9)], None), ('add', [1, 2], {'scale': 3}), ('echo', [a(), a()], {'kw': a()}),
                           ('echo', [], None), ('n_kept', [], None)])
    raise ValueError(kind)


def apply_local(local, method, args, kwargs):
    try:
        if method == '@getattr':
            return ('val', getattr(local, args[0]))
        if method == '@setattr':
            setattr(local, args[0], args[1])
            return ('val', None)
        if method == '@delattr':
            delattr(local, args[0])
            return ('val', None)
        if method == '@value-get':
            return ('val', local.value)
        if method == '@value-set':
            local.value = args[0]
            return ('val', None)
        if method == '@iadd':
            local += args[0]
            return ('val', None)
        if method in ('@imul', '@iadd-check'):
            if method == '@imul':
                local *= args[0]
            else:
                local += args[0]
            return ('val', None)
        if method == '@iter':
            return ('val', list(iter(local)))
        if method == '@str':
            return ('val', repr(local))
        r = getattr(local, method)(*args, **(kwargs or {}))
        if method in ('keys', 'values', 'items'):
            r = list(r)
        if method == '__imul__':
            r = None  # the proxy's __imul__ returns the proxy; the effect is what counts
        return ('val', r)
    except BaseException as e:  # noqa: BLE001
        return ('exc', {'type': type(e).__name__, 'args': norm_exc(list(e.args))})


def same(got, exp, method):
    if method == '__imul__' and exp[0] == 'val':
        return got[0] in ('proxy', 'val')  # list.__imul__ returns the list itself; the proxy's returns the proxy (or, before the repair, a copy)
    if got[0] != exp[0]:
        return False
    if got[0] == 'exc':
        return got[1]['type'] == exp[1]['type'] and got[1]['args'] == exp[1]['args']
    g, e = got[1], exp[1]
    if method in ('keys', 'values', 'items'):
        g = list(g)
    if method == '__imul__':
        return True
    return norm_exc(g) == norm_exc(e) and type(g) is type(e)


def run_case(case):
    import multiprocessing.managers as MM

    import mpservice.multiprocessing as mm
    from mpservice.multiprocessing.server_process import BaseProxy, ServerProcess
    from vlib import mgrtargets

    rng = random.Random(case['seed'])
    viol = []
    obs = {'sequences': 1, 'operations': 0, 'raising_operations': 0, 'remote_tracebacks_checked': 0, 'ops_via_agents': 0, 'managed_mutations': 0, 'concurrent_ops': 0}
    kind = case['kind']

    def body():
        with ServerProcess() as manager:
            agents = {}
            try:
                for k in range(1, case['agents'] + 1):
                    cq, rq = mm.Queue(), mm.Queue()
                    p = mm.Process(target=mgrtargets.agent_main, args=(cq, rq), name=f'agent-{k}')
                    p.start()
                    agents[k] = (p, cq, rq)

                def agent(k, cmd):
                    p, cq, rq = agents[k]
                    cq.put(cmd)
                    r = rq.get(timeout=60)
                    if r[0] == 'err':
                        raise RuntimeError(f'agent {k}: {r[1]}')
                    return r[1]

                reg = {}

                def call(actor, handle, method, args, kwargs=None, store_as=None):
                    if actor == 0:
                        return mgrtargets.do_call(reg, handle, method, list(args), kwargs, store_as)
                    obs['ops_via_agents'] += 1
                    return agent(actor, ('call', handle, method, list(args), kwargs, store_as))

                def share(handle, actors):
                    b = pickle.dumps(reg[handle])
                    for a in actors:
                        if a == 0:
                            reg[handle + '-copy'] = pickle.loads(pickle.dumps(reg[handle]))
                        else:
                            agent(a, ('load', handle, pickle.dumps(reg[handle])))
                    pickle.loads(b)  # deserialise the spare pickle once (keeps the reference protocol balanced)

                if kind in ('list', 'dict', 'namespace', 'value', 'box'):
                    if kind == 'list':
                        reg['o'], local = manager.list(), []
                    elif kind == 'dict':
                        reg['o'], local = manager.dict(), {}
                    elif kind == 'namespace':
                        reg['o'], local = manager.Namespace(), MM.Namespace()
                    elif kind == 'value':
                        reg['o'], local = manager.Value('i', 5), MM.Value('i', 5)
                    else:
                        reg['o'], local = manager.Box(3), mgrtargets.Box(3)
                    share('o', [0] + list(agents))
                    routes = [(0, 'o'), (0, 'o-copy')] + [(k, 'o') for k in agents]
                    for i in range(case['ops']):
                        method, args, kwargs = gen_op(kind, rng, local)
                        actor, handle = rng.choice(routes)
                        exp = apply_local(local, method, args, kwargs)
                        got = call(actor, handle, method, args, kwargs)
                        obs['operations'] += 1
                        if exp[0] == 'exc':
                            obs['raising_operations'] += 1
                        if not same(got, exp, method):
                            mech = 'proxy/result-differs'
                            if got[0] == 'exc' and exp[0] == 'exc':
                                mech = 'proxy/exception-differs'
                            elif got[0] != exp[0]:
                                mech = 'proxy/raises-differently'
                            viol.append({'mech': f'{mech}/{kind}', 'msg': f'op #{i} {kind}.{method}{tuple(args)!r} kwargs={kwargs} via actor {actor}: proxy gave {str(got)[:300]}, direct call gives {str(exp)[:300]}'})
                            return
                        if got[0] == 'exc':
                            obs['remote_tracebacks_checked'] += 1
                            d = got[1]
                            if not d['remote'] or 'Traceback' not in d['tb']:
                                viol.append({'mech': f'proxy/server-traceback-missing/{kind}', 'msg': f'{kind}.{method} raised {d["type"]}{d["args"]} in the caller but without the server-side traceback (remote={d["remote"]})'})
                                return
                            if method in ('boom', 'leave') and 'SITE-MARK-C14' not in d['tb']:
                                viol.append({'mech': f'proxy/server-traceback-missing/{kind}', 'msg': 'Box.boom: the remote traceback does not name the raising line'})
                                return
                            # the connection must still be usable
                            probe = call(actor, handle, {'list': '__len__', 'dict': '__len__', 'namespace': '@getattr', 'value': 'get', 'box': 'get'}[kind],
                                         ['_probe_'] if kind == 'namespace' else [])
                            if kind != 'namespace' and probe[0] != 'val':
                                viol.append({'mech': f'proxy/connection-unusable-after-error/{kind}', 'msg': f'after {method} raised, the next call on the same connection gave {probe}'})
                                return
                    # final state through every route equals the local object
                    for actor, handle in routes:
                        if kind == 'list':
                            got = call(actor, handle, '__getitem__', [slice(None)])
                            exp = ('val', list(local))
                        elif kind == 'dict':
                            got = call(actor, handle, 'copy', [])
                            exp = ('val', dict(local))
                        elif kind == 'value':
                            got, exp = call(actor, handle, 'get', []), ('val', local.value)
                        elif kind == 'box':
                            got, exp = call(actor, handle, 'get', []), ('val', local.get())
                        else:
                            continue
                        if not same(got, exp, 'final'):
                            viol.append({'mech': f'proxy/state-not-visible-through-every-proxy/{kind}', 'msg': f'final state via actor {actor}: {str(got)[:200]} vs {str(exp)[:200]}'})
                            return
                elif kind == 'managed':
                    reg['b'] = manager.Box(0)
                    for rd in range(max(3, case['ops'] // 30)):
                        n = rng.randrange(0, 5)
                        # a user-class value handed out with a bare managed(), twice per sequence (the second call finds the derived typeid registered)
                        r = call(0, 'b', 'make_child_bare', [rd], None, 'CH')
                        if r[0] != 'proxy':
                            viol.append({'mech': 'proxy/managed-value-is-a-copy', 'msg': f'managed(Box) came back as {str(r)[:200]} instead of a live proxy'})
                            return
                        share('CH', list(agents))
                        actor = rng.choice([0] + list(agents))
                        call(actor, 'CH', 'set', [('set-through-proxy', rd)])
                        obs['managed_mutations'] += 1
                        seen = call(0, 'b', 'child_value', [])
                        if seen != ('val', ('set-through-proxy', rd)):
                            viol.append({'mech': 'proxy/managed-value-is-a-copy', 'msg': f'a change made through the proxy returned by managed(Box) (call #{rd + 1}) is not visible in the hosted value: server has {seen}'})
                            return
                        r = call(0, 'b', 'make_own_list' if rd % 2 else 'make_own_list_bare', [n], None, 'L')
                        if r[0] != 'proxy':
                            viol.append({'mech': 'proxy/managed-value-is-a-copy', 'msg': f'managed_list came back as {r} instead of a live proxy'})
                            return
                        share('L', list(agents))
                        local = list(range(n))
                        for j in range(10):
                            actor = rng.choice([0] + list(agents))
                            v = ('m', rd, j)
                            call(actor, 'L', 'append', [v])
                            local.append(v)
                            obs['managed_mutations'] += 1
                        snap = call(0, 'b', 'own_snapshot', [])
                        if snap != ('val', local):
                            viol.append({'mech': 'proxy/managed-value-is-a-copy', 'msg': f'mutations through the proxy returned by managed_list are not visible in the hosted value: server has {snap}, expected {local}'})
                            return
                        # a proxy stored in a hosted object and used *inside* the server process
                        call(0, 'b', 'keep', [('@H', 'L')])
                        k_idx = call(0, 'b', 'n_kept', [])[1] - 1
                        call(0, 'b', 'call_kept', [k_idx, 'insert', 0, ('srv', rd)])
                        call(0, 'b', 'call_kept', [k_idx, '__setitem__', 1, ('srv2', rd)])
                        local.insert(0, ('srv', rd))
                        local[1] = ('srv2', rd)
                        got = call(rng.choice([0] + list(agents)), 'L', '__getitem__', [slice(None)])
                        if got != ('val', local):
                            viol.append({'mech': 'proxy/server-side-proxy-call-differs', 'msg': f'list after insert/__setitem__ through a proxy used inside the server: {got}, expected {local}'})
                            return
                        # ... and a method that raises, called through a proxy inside the server: the hosted method sees the original error
                        got = call(0, 'b', 'call_kept', [k_idx, 'pop', 10 ** 6])
                        obs['raising_operations'] += 1
                        if got[0] != 'exc' or got[1]['type'] != 'IndexError' or got[1]['args'] != ['pop index out of range']:
                            viol.append({'mech': 'proxy/server-side-proxy-call-differs', 'msg': f'list.pop(10**6) through a proxy used inside the server gave {str(got)[:300]}, a direct call raises IndexError("pop index out of range")'})
                            return
                        # the same hosted list handed out a second time; the newer proxy goes away again: the first one must keep working
                        r = call(0, 'b', 'share_own', [], None, 'L2')
                        if r[0] == 'proxy':
                            call(0, 'L2', 'append', [('via-second', rd)])
                            local.append(('via-second', rd))
                            del reg['L2']
                            import gc

                            gc.collect()
                            call(0, 'b', 'n_kept', [])  # one more request on the connection (the server thread lets go of its last reply)
                            v = ('after-second-proxy-dropped', rd)
                            got = call(rng.choice([0] + list(agents)), 'L', 'append', [v])
                            local.append(v)
                            got = call(0, 'L', '__getitem__', [slice(None)])
                            obs['rehosted_then_dropped'] = obs.get('rehosted_then_dropped', 0) + 1
                            if got != ('val', local):
                                viol.append({'mech': 'proxy/first-proxy-broken-after-second-handed-out-and-dropped', 'msg': f'after the same hosted list was handed out again by managed_list() and that second proxy dropped, '
                                             f'a call through the first proxy gave {str(got)[:300]}; a direct call gives the list {str(local)[:120]}'})
                                return
                        if rd == 0:
                            # a class registered with method_to_typeid: the method returns a plain list, the caller gets a live proxy to it
                            reg['S'] = manager.Shelf()
                            r = call(0, 'S', 'items_proxy', [], None, 'SI')
                            if r[0] != 'proxy':
                                viol.append({'mech': 'proxy/managed-value-is-a-copy', 'msg': f'a method listed in method_to_typeid returned {str(r)[:200]} instead of a live proxy'})
                                return
                            share('SI', list(agents))
                            exp_items = []
                            for j in range(6):
                                v = ('shelf', j)
                                call(rng.choice([0] + list(agents)), 'SI', 'append', [v])
                                exp_items.append(v)
                                obs['managed_mutations'] += 1
                            snap = call(0, 'S', 'items_snapshot', [])
                            if snap != ('val', exp_items):
                                viol.append({'mech': 'proxy/managed-value-is-a-copy', 'msg': f'mutations through the proxy of a method_to_typeid method are not visible in the hosted object: {snap}, expected {exp_items}'})
                                return
                        r = call(0, 'b', 'make_own_dict', [], None, 'D')
                        share('D', list(agents))
                        for j in range(6):
                            actor = rng.choice([0] + list(agents))
                            call(actor, 'D', '__setitem__', [j, (rd, j)])
                            obs['managed_mutations'] += 1
                        snap = call(0, 'b', 'own_dict_snapshot', [])
                        if snap != ('val', {j: (rd, j) for j in range(6)}):
                            viol.append({'mech': 'proxy/managed-value-is-a-copy', 'msg': f'managed_dict mutations not visible in the server: {snap}'})
                            return
                        obs['operations'] += 18
                elif kind == 'init-managed':
                    # a registered class whose constructor makes a managed value (runs inside the server while the object is being created)
                    reg['h'] = manager.Holder(3)
                    r = call(0, 'h', 'own_proxy', [], None, 'HL')
                    if r[0] != 'proxy':
                        viol.append({'mech': 'proxy/managed-value-is-a-copy', 'msg': f'Holder.own_proxy() returned {str(r)[:200]}'})
                        return
                    share('HL', list(agents))
                    local = [0, 1, 2]
                    for j in range(8):
                        actor = rng.choice([0] + list(agents))
                        call(actor, 'HL', 'append', [('h', j)])
                        local.append(('h', j))
                        obs['managed_mutations'] += 1
                        obs['operations'] += 1
                    got = call(0, 'h', 'own_snapshot', [])
                    if got != ('val', local) or call(0, 'h', 'own_len', []) != ('val', len(local)):
                        viol.append({'mech': 'proxy/managed-value-is-a-copy', 'msg': f'managed value created in a constructor: server has {str(got)[:200]}, expected {local}'})
                elif kind == 'two-managers':
                    # a second manager lives at the same time; proxies of ITS objects travel into and out of the first manager's process
                    # (stored in hosted containers, passed as method arguments): every call must reach the object in the server that hosts it
                    with ServerProcess() as other:
                        n0 = rng.randrange(1, 4)
                        loc_inner = list(range(n0))
                        reg['inner'] = other.list(list(loc_inner))
                        reg['mine'] = manager.list(['x'])
                        reg['holder'] = manager.dict()
                        reg['hl'] = manager.list()
                        steps = [(0, 'holder', '__setitem__', ['k', ('@H', 'inner')], None), (0, 'hl', 'append', [('@H', 'inner')], None),
                                 (0, 'holder', '__getitem__', ['k'], 'back1'), (0, 'hl', '__getitem__', [0], 'back2')]
                        agent(1, ('load', 'holder', pickle.dumps(reg['holder'])))
                        pickle.loads(pickle.dumps(reg['holder']))
                        steps += [(1, 'holder', '__getitem__', ['k'], 'back3')]
                        for actor, h, method, args, store in steps:
                            got = call(actor, h, method, args, None, store)
                            obs['operations'] += 1
                            if got[0] == 'exc':
                                viol.append({'mech': 'proxy/object-of-another-manager-not-reached', 'msg': f'two managers alive; proxy of a list hosted by the second one sent into / fetched from the first: '
                                             f'{h}.{method} via actor {actor} gave {str(got)[:300]}'})
                                return
                        script = [(0, 'back1'), (1, 'back3'), (0, 'inner'), (0, 'back2'), (1, 'back3'), (0, 'back1')]
                        rng.shuffle(script)
                        for j, (actor, h) in enumerate(script):
                            v = ('t', j)
                            loc_inner.append(v)
                            got = call(actor, h, 'append', [v])
                            obs['operations'] += 1
                            if got != ('val', None):
                                viol.append({'mech': 'proxy/object-of-another-manager-not-reached', 'msg': f'append through travelled proxy {h} via actor {actor} gave {str(got)[:300]}'})
                                return
                        for actor, h in ((0, 'inner'), (0, 'back1'), (0, 'back2'), (1, 'back3')):
                            got = call(actor, h, '__getitem__', [slice(None)])
                            obs['operations'] += 1
                            if not same(got, ('val', list(loc_inner)), '__getitem__'):
                                viol.append({'mech': 'proxy/state-not-visible-through-every-proxy/two-managers', 'msg': f'list hosted by the second manager read through {h} via actor {actor}: {str(got)[:200]} vs {loc_inner}'})
                                return
                        got = call(0, 'mine', '__getitem__', [slice(None)])
                        if not same(got, ('val', ['x']), '__getitem__'):
                            viol.append({'mech': 'proxy/object-of-another-manager-not-reached', 'msg': f'an unrelated list of the first manager changed: {got}'})
                            return
                        # a failing call through the travelled proxy: same exception as a direct call, connection usable afterwards
                        exp = apply_local(list(loc_inner), 'index', ['absent'], None)
                        got = call(0, 'back1', 'index', ['absent'])
                        obs['operations'] += 1
                        obs['raising_operations'] += 1
                        if not same(got, exp, 'index'):
                            viol.append({'mech': 'proxy/object-of-another-manager-not-reached', 'msg': f'back1.index("absent") gave {str(got)[:250]}, direct call gives {str(exp)[:150]}'})
                            return
                        obs['two_manager_sequences'] = obs.get('two_manager_sequences', 0) + 1
                        for h in ('back1', 'back2', 'inner'):
                            reg.pop(h, None)
                        agent(1, ('drop', 'back3'))
                        call(0, 'holder', 'clear', [])
                        call(0, 'hl', 'pop', [])
                elif kind == 'one-typeid-two-classes':
                    # a typeid registered with a factory: two hosted objects of different classes (different methods) behind the same typeid,
                    # met by the harness process in one order and by the agent in the other
                    first = case['first']
                    order = ['counter', 'stack'] if first == 'counter' else ['stack', 'counter']
                    for k_ in order:
                        reg[k_] = manager.Gadget(k_)
                    for k_ in reversed(order):
                        agent(1, ('load', k_, pickle.dumps(reg[k_])))
                    loc = {'counter': mgrtargets.GCounter(), 'stack': mgrtargets.GStack()}
                    script = [('counter', 'incr', [2]), ('stack', 'push', ['a']), ('stack', 'push', [('b', 1)]), ('counter', 'value', []), ('stack', 'pop', []),
                              ('stack', 'pop', []), ('stack', 'pop', []), ('counter', 'incr', []), ('stack', 'value', [])]
                    for actor in (0, 1, 0):
                        for h, method, args in script:
                            exp = apply_local(loc[h], method, args, None)
                            got = call(actor, h, method, args)
                            obs['operations'] += 1
                            if exp[0] == 'exc':
                                obs['raising_operations'] += 1
                            if not same(got, exp, method):
                                viol.append({'mech': 'proxy/methods-of-another-object-of-the-same-typeid', 'msg': f'typeid Gadget registered with a factory; objects created in the order {order}: '
                                             f'{h}.{method}{tuple(args)!r} via actor {actor} gave {str(got)[:250]}, direct call gives {str(exp)[:150]}'})
                                return
                    obs['same_typeid_pairs'] = obs.get('same_typeid_pairs', 0) + 1
                elif kind == 'lifetimes':
                    # proxies come and go while calls continue: a process (one thread) lets go of every proxy it holds of this manager and later
                    # gets a new one; a copy of a proxy is released while the original stays in use
                    import copy
                    import gc

                    local = []
                    reg['p'] = manager.list()
                    agent(1, ('load', 'p', pickle.dumps(reg['p'])))  # agent 1 keeps the list alive throughout

                    def some_ops(actor, handle, k, what):
                        for _ in range(k):
                            method, args, kwargs = gen_op('list', rng, local)
                            exp = apply_local(local, method, args, kwargs)
                            got = call(actor, handle, method, args, kwargs)
                            obs['operations'] += 1
                            if exp[0] == 'exc':
                                obs['raising_operations'] += 1
                            if not same(got, exp, method):
                                viol.append({'mech': 'proxy/call-fails-after-proxies-were-released' if got[0] == 'exc' and exp[0] != 'exc' else 'proxy/result-differs/list', 'msg': f'{what}: list.{method}{tuple(args)!r} via actor {actor} gave {str(got)[:300]}, direct call gives {str(exp)[:200]}'})
                                return False
                        return True

                    for rd in range(max(4, case['ops'] // 30)):
                        mode = ['drop-all', 'twin-dropped', 'agent-drop-all', 'agent-twin-dropped', 'copy-dropped'][rd % 5]
                        obs['lifetime_rounds'] = obs.get('lifetime_rounds', 0) + 1
                        if not some_ops(0, 'p', 2, 'before ' + mode) or not some_ops(1, 'p', 2, 'before ' + mode):
                            return
                        if mode == 'drop-all':
                            b = pickle.dumps(reg['p'])
                            del reg['p']
                            gc.collect()  # this process now holds no proxy of this manager
                            reg['p'] = pickle.loads(b)
                            if not some_ops(0, 'p', 3, 'after this process released its last proxy of the manager and then received a new one (same thread)'):
                                return
                        elif mode in ('twin-dropped', 'copy-dropped'):
                            reg['t'] = pickle.loads(pickle.dumps(reg['p'])) if mode == 'twin-dropped' else copy.copy(reg['p'])
                            if not some_ops(0, 't', 2, 'through a second proxy of the same object'):
                                return
                            del reg['t']
                            gc.collect()
                            if not some_ops(0, 'p', 3, 'through the original proxy after a second proxy of the same object was released (same thread)'):
                                return
                        elif mode == 'agent-drop-all':
                            a = 2 if 2 in agents else 1
                            if a == 1:
                                b = agent(1, ('dumps', 'p'))
                                agent(1, ('drop', 'p'))
                                agent(1, ('gc',))
                                agent(1, ('load', 'p', b))
                            else:
                                agent(2, ('load', 'p', pickle.dumps(reg['p'])))
                                if not some_ops(2, 'p', 2, 'agent 2 first use'):
                                    return
                                agent(2, ('drop', 'p'))
                                agent(2, ('gc',))
                                agent(2, ('load', 'p', pickle.dumps(reg['p'])))
                            if not some_ops(a, 'p', 3, 'in another process, after it released its last proxy of the manager and then received a new one'):
                                return
                        else:
                            agent(1, ('load', 't', pickle.dumps(reg['p'])))
                            if not some_ops(1, 't', 2, 'agent: through a second proxy of the same object'):
                                return
                            agent(1, ('drop', 't'))
                            agent(1, ('gc',))
                            if not some_ops(1, 'p', 3, 'in another process, through the original proxy after a second proxy of the same object was released'):
                                return
                    got = call(0, 'p', '__getitem__', [slice(None)])
                    if not same(got, ('val', list(local)), 'final'):
                        viol.append({'mech': 'proxy/state-not-visible-through-every-proxy/list', 'msg': f'final state: {str(got)[:200]} vs {str(local)[:200]}'})
                else:  # concurrent
                    reg['l'], reg['d'] = manager.list(), manager.dict()
                    share('l', list(agents))
                    share('d', list(agents))
                    nthreads = rng.choice([2, 3, 4])
                    per = max(10, case['ops'] // 6)
                    errs = []

                    def worker(t):
                        try:
                            for j in range(per):
                                reg['l'].append((t, j))
                                reg['d'][(t, j % 5)] = j
                                try:
                                    reg['d'][('missing', t)]
                                except KeyError:
                                    pass
                                else:
                                    errs.append('missing key did not raise')
                        except BaseException as e:  # noqa: BLE001
                            errs.append(repr(e))

                    ths = [threading.Thread(target=worker, args=(t,), name=f'caller-{t}') for t in range(nthreads)]
                    for t in ths:
                        t.start()
                    for k in agents:
                        for j in range(per):
                            call(k, 'l', 'append', [(100 + k, j)])
                    for t in ths:
                        t.join()
                    obs['concurrent_ops'] += nthreads * per * 3 + len(agents) * per
                    obs['operations'] += nthreads * per * 3
                    if errs:
                        viol.append({'mech': 'proxy/concurrent-call-failed', 'msg': f'{errs[:2]}'})
                        return
                    got = sorted(reg['l'][:])
                    exp = sorted([(t, j) for t in range(nthreads) for j in range(per)] + [(100 + k, j) for k in agents for j in range(per)])
                    if got != exp:
                        viol.append({'mech': 'proxy/concurrent-appends-lost', 'msg': f'{len(got)} elements, expected {len(exp)}'})
                    # per-thread FIFO within the shared list
                    seq = reg['l'][:]
                    for t in range(nthreads):
                        mine = [j for (tt, j) in seq if tt == t]
                        if mine != sorted(mine):
                            viol.append({'mech': 'proxy/concurrent-appends-reordered', 'msg': f'appends of thread {t} are out of order in the hosted list'})
                    dd = reg['d'].copy()
                    expd = {(t, r): max(j for j in range(per) if j % 5 == r) for t in range(nthreads) for r in range(5) if r < per}
                    if dd != expd:
                        viol.append({'mech': 'proxy/concurrent-dict-state', 'msg': f'dict has {len(dd)} keys, expected {len(expd)}'})
            finally:
                reg = None
                for k, (p, cq, rq) in agents.items():
                    try:
                        cq.put(('exit',))
                        p.join(10)
                        if p.is_alive():
                            p.kill()
                    except Exception:
                        pass

    try:
        watch.run_bounded(body, BOUND, 'manager sequence')
    except watch.Hang as h:
        viol.append({'mech': 'proxy/hang', 'msg': 'sequence did not finish', 'stacks': h.stacks})
        return {'violations': viol, 'obs': obs, 'exit_after': True, 'nontrivial': True, 'sig': repr(case)}
    except watch.Inconclusive as e:
        return {'violations': viol, 'obs': obs, 'inconclusive': str(e), 'exit_after': True}
    nontrivial = obs['raising_operations'] > 0 and obs['ops_via_agents'] > 0
    return {'violations': viol[:3], 'obs': obs, 'nontrivial': nontrivial or kind in ('managed', 'concurrent', 'lifetimes', 'one-typeid-two-classes', 'init-managed', 'two-managers'), 'sig': hash((kind, case['seed'])) & 0xFFFFFFFFFFFF, 'exit_after': True,
            'sample': {'kind': kind, 'agents': case['agents'], 'operations': obs['operations'], 'raising': obs['raising_operations'], 'via_agents': obs['ops_via_agents'],
                       'managed_mutations': obs['managed_mutations'], 'concurrent_ops': obs['concurrent_ops']}}


def decide_inconclusive(obs, results, cases):
    if obs.get('operations', 0) == 0 or obs.get('raising_operations', 0) == 0 or obs.get('managed_mutations', 0) == 0 or obs.get('ops_via_agents', 0) == 0:
        return 'no operation / raising operation / managed mutation / agent call was observed'
    return None


RULE = RULE + '; str() and list iteration through proxies; the same hosted list handed out twice, the newer proxy dropped; proxy lifetimes interleaved with calls: a process (one thread) releases its last proxy of the manager and receives a new one, a pickled / copy.copy twin is released while the original stays in use, in the harness process and in agents; in-place operators (p *= 2, p += [..]) must leave the name bound to the proxy; a hosted method that raises SystemExit; one typeid registered with a factory that yields objects of two classes, met in opposite orders by two processes'
