"""C10 — tee forks see identical streams and cannot wedge each other."""
from __future__ import annotations

import random
import threading
import time

from vlib import schedfuzz, watch
from vlib.targets import Boom, CancelLike, ErrorList, norm_exc

PROPERTY = 'C10'
LEVEL = 'exploration'
RULE = ('n forks (2-4) consumed in threads with seeded per-element pauses (one designated slow fork in half of the runs), buffer_size 2-5, '
        'source length {0,1,2,window,3*window}, source raising at every position (None, 0..len), every statement of Fork.__next__ under seeded '
        'delay injection with targeted sites (after the `head.value is None` test; while holding the source lock; before the window put); '
        'non-trivial = >=2 forks, length > window or a source failure, and the fuzzer injected at >=1 site; distinct = distinct '
        '(forks, window, length, failure position, interleaving signature); stall cases: one fork or the source silent for 0.09-0.25 s / ~1 s at a random position (the fork step polls the source lock every 0.1 s), with delay sites at exception-handler entries')
ASSUMPTIONS = ['verdict on the look-ahead bound uses received_i + (1 if fork i is inside next()) so that the consumer-side counting lag can never raise an alarm; '
               'the strict count is reported as evidence (max_gap_strict)',
               'bounded progress: all fork threads finish within 20 s or the stacks of all threads are sampled (3 x 1 s) for stability']
CASE_TIMEOUT = 120
PARALLEL = 15
BOUND = 20


def gen_cases(tier, seed):
    rng = random.Random(seed)
    cases = []
    reps = 6 if tier == "quick" else 60
    for rep in range(reps):
        for nf in (2, 3, 4):
            for w in (2, 3, 5):
                for length in (0, 1, 2, w, 3 * w):
                    fails = [None] + list(range(0, length + 1))
                    if tier == 'quick' and len(fails) > 5:
                        fails = [None] + rng.sample(fails[1:], 4)
                    for fa in fails:
                        cases.append({'forks': nf, 'window': w, 'length': length, 'fail_at': fa, 'slow_fork': rng.choice([None, 0, nf - 1]),
                                      'p': rng.choice([0.05, 0.15, 0.3]), 'seed': rng.randrange(1 << 30)})
    # the source fails with a falsy exception object / with a class outside the Exception hierarchy
    for fc in ('falsy', 'base'):
        for nf in (2, 3):
            for w in (2, 4):
                for fa in (0, 1, 2 * w + 1):
                    cases.append({'forks': nf, 'window': w, 'length': 2 * w + 1, 'fail_at': fa, 'slow_fork': None, 'fail_class': fc, 'p': 0.1, 'seed': rng.randrange(1 << 30)})
    # one fork (or the source) stalls for about a polling interval (the fork step polls the source lock every 0.1 s)
    for i in range(40 if tier == 'quick' else 800):
        w = rng.choice([2, 3])
        length = rng.choice([w + 2, 3 * w])
        cases.append({'forks': rng.choice([2, 3]), 'window': w, 'length': length, 'fail_at': rng.choice([None, None, length - 1, length]), 'slow_fork': None,
                      'stall': [rng.choice(['fork', 'fork', 'source']), rng.randrange(0, length), round(rng.choice([rng.uniform(0.09, 0.25), rng.uniform(0.09, 0.25), rng.uniform(1.0, 1.06)]), 4)],
                      'p': 0.2, 'seed': rng.randrange(1 << 30)})
    return cases


class Counters:
    def __init__(self, nf, bound):
        self.lock = threading.Lock()
        self.pulled = 0
        self.received = [0] * nf
        self.in_call = [0] * nf
        self.bound = bound
        self.max_gap_strict = 0
        self.max_gap_lenient = 0
        self.violation = None
        self.window_q = None
        self.max_window = 0

    def pull(self):
        with self.lock:
            self.pulled += 1
            if self.window_q is not None:
                try:
                    q = self.window_q.qsize()
                    self.max_window = max(self.max_window, q)
                except Exception:
                    pass
            strict = self.pulled - min(self.received)
            lenient = self.pulled - min(r + c for r, c in zip(self.received, self.in_call))
            self.max_gap_strict = max(self.max_gap_strict, strict)
            self.max_gap_lenient = max(self.max_gap_lenient, lenient)
            if lenient > self.bound and self.violation is None:
                self.violation = (lenient, self.pulled, list(self.received), list(self.in_call))


def run_case(case):
    import mpservice.streamer._tee as T

    rng = random.Random(case['seed'])
    nf, w, n, fa = case['forks'], case['window'], case['length'], case['fail_at']
    items = [('e', i) for i in range(n)]
    cnt = Counters(nf, w + 2)
    src_calls = {'n': 0, 'after_fail': 0, 'failed': False}

    stall = case.get('stall')
    # the class the source fails with: the harness's Boom, a falsy exception object (collection-like error without entries), or a class
    # outside the Exception hierarchy (framework cancellation, SystemExit ...)
    fail_cls = {'falsy': lambda *a: ErrorList(), 'base': CancelLike}.get(case.get('fail_class'), Boom)

    def source():
        for i, x in enumerate(items):
            if stall and stall[0] == 'source' and i == stall[1]:
                time.sleep(stall[2])
            if fa is not None and i == fa:
                src_calls['failed'] = True
                raise fail_cls('src', i)
            cnt.pull()
            yield x
        if fa is not None and fa >= n:
            src_calls['failed'] = True
            raise fail_cls('src', fa)

    forks = T.tee(source(), nf, buffer_size=w)
    try:  # optional probe: occupancy of the shared window, sampled at every pull
        cnt.window_q = forks[0].streamlets[0].buffer
    except Exception:
        cnt.window_q = None
    pauses = [[rng.choice([0, 0, 0, 0.0003, 0.001]) for _ in range(n + 1)] for _ in range(nf)]
    if case['slow_fork'] is not None:
        pauses[case['slow_fork']] = [rng.choice([0.001, 0.003]) for _ in range(n + 1)]
    if stall and stall[0] == 'fork':
        pauses[0][min(stall[1], n)] = stall[2]
    start_delay = [rng.choice([0, 0, 0.001, 0.004]) for _ in range(nf)]
    results = [None] * nf

    def consume(i):
        out = []
        term = ('END',)
        if start_delay[i]:
            time.sleep(start_delay[i])
        it = iter(forks[i])
        try:
            k = 0
            while True:
                with cnt.lock:
                    cnt.in_call[i] = 1
                try:
                    x = next(it)
                except StopIteration:
                    with cnt.lock:
                        cnt.in_call[i] = 0
                    break
                except BaseException:
                    with cnt.lock:
                        cnt.in_call[i] = 0
                    raise
                with cnt.lock:
                    cnt.in_call[i] = 0
                    cnt.received[i] += 1
                out.append(x)
                p = pauses[i][min(k, n)]
                k += 1
                if p:
                    time.sleep(p)
        except BaseException as e:  # noqa: BLE001  (the source may fail with a class outside the Exception hierarchy)
            term = ('RAISED', norm_exc(e))
        results[i] = (out, term)

    fz = schedfuzz.SchedFuzz(seed=case['seed'], p=case['p'], delays=(0, 0, 0.0001, 0.0005, 0.002), changepoints=1, changepoint_delay=0.01)
    fz.add(T.Fork.__next__)
    # a fork that has just seen "no first element yet" loses the race badly: its peer must be able to fill the window meanwhile
    fz.add_site(T.Fork.__next__, 'if self.head.value is None:', prob=0.3, delay=0.004, where='after', name='after-head-none-test')
    fz.add_site(T.Fork.__next__, 'while self.head.value is None:', prob=0.3, delay=0.03, where='after', name='after-head-none-loop-test')
    fz.add_site(T.Fork.__next__, 'with self.instream_lock:', prob=0.3, delay=0.03, where='at', name='before-first-lock')
    fz.add_site(T.Fork.__next__, 'x = next(self.instream)', prob=0.3, delay=0.002, where='after', occurrence=1, name='holding-source-lock')
    fz.add_site(T.Fork.__next__, 'self.buffer.put(box)', prob=0.3, delay=0.002, where='at', occurrence=1, name='before-window-put')
    if stall:
        fz.add_handler_sites(T.Fork.__next__, prob=0.5, delay=0.01)
    threads = [threading.Thread(target=consume, args=(i,), name=f'fork-{i}', daemon=True) for i in range(nf)]
    viol = []
    fk = 'nofail' if fa is None else 'source-raises'
    with fz:
        for t in threads:
            t.start()
        deadline = time.monotonic() + BOUND
        for t in threads:
            t.join(max(0.0, deadline - time.monotonic()))
        alive = [t.name for t in threads if t.is_alive()]
        if alive:
            stable, snap = watch.stable_stacks()
            alive = [t.name for t in threads if t.is_alive()]
            if alive:
                if stable:
                    viol.append({'mech': f'tee/fork-wedged/{fk}', 'msg': f'forks {alive} did not finish although every fork is being consumed; '
                                 f'forks={nf} window={w} length={n} fail_at={fa}; partial results: {[r and (len(r[0]), r[1]) for r in results]!r}', 'stacks': snap})
                    return {'violations': viol, 'obs': {'runs': 1}, 'fuzz': fz.stats(), 'exit_after': True, 'nontrivial': True, 'sig': repr(case)}
                return {'violations': [], 'obs': {'runs': 1}, 'inconclusive': 'forks still running after the bound, stacks changing', 'exit_after': True}
    exp_out = items if fa is None or fa >= n else items[:fa]
    exp_term = ('END',) if fa is None else ('RAISED', norm_exc(fail_cls('src', fa)))
    for i, (out, term) in enumerate(results):
        if out != exp_out:
            viol.append({'mech': f'tee/fork-wrong-elements/{fk}', 'msg': f'fork {i} got {out!r}, source elements {exp_out!r} (forks={nf} window={w} fail_at={fa})'})
            break
        if term != exp_term:
            viol.append({'mech': f'tee/fork-wrong-ending/{fk}', 'msg': f'fork {i} ended with {term!r}, the source ended with {exp_term!r} (forks={nf} window={w} length={n} fail_at={fa}); all: {[r[1] for r in results]!r}'})
            break
    if cnt.pulled != len(exp_out):
        viol.append({'mech': f'tee/source-pull-count/{fk}', 'msg': f'source yielded {cnt.pulled} elements, expected {len(exp_out)}'})
    if cnt.violation:
        viol.append({'mech': 'tee/lookahead-exceeded', 'msg': f'pulled - min(received) = {cnt.violation[0]} > window+2 = {w + 2}: pulled {cnt.violation[1]}, received {cnt.violation[2]}, in-call {cnt.violation[3]}'})
    if cnt.max_window > w:
        viol.append({'mech': 'tee/window-overfull', 'msg': f'the shared window held {cnt.max_window} elements with buffer_size {w}'})
    st = fz.stats()
    obs = {'runs': 1, 'elements_delivered': sum(len(r[0]) for r in results), 'source_failures': 1 if fa is not None else 0,
           'bound_attained_strict': 1 if cnt.max_gap_strict == w + 2 else 0, 'max_gap_strict_minus_bound': cnt.max_gap_strict - (w + 2),
           'max_gap_lenient_minus_bound': cnt.max_gap_lenient - (w + 2),
           'max_window_minus_size': cnt.max_window - w if cnt.window_q is not None else -99}
    nontrivial = nf >= 2 and (n > w or fa is not None) and st['injections'] > 0
    return {'violations': viol, 'obs': obs, 'fuzz': st, 'nontrivial': nontrivial,
            'sig': hash((nf, w, n, fa, st['signature'])) & 0xFFFFFFFFFFFF,
            'sample': {'forks': nf, 'window': w, 'length': n, 'fail_at': fa, 'slow_fork': case['slow_fork'],
                       'fork_endings': [r[1] for r in results], 'source_pulled': cnt.pulled, 'max_pulled_minus_min_received': cnt.max_gap_strict,
                       'injections': st['injections'], 'site_hits': st['site_hits']}}


def decide_inconclusive(obs, results, cases):
    if obs.get('source_failures', 0) == 0 or obs.get('elements_delivered', 0) == 0:
        return 'no run with a source failure / no element delivered'
    return None
