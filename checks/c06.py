"""C06 — backlog never exceeds capacity; slots are always returned."""
from __future__ import annotations

import asyncio
import random
import threading
import time

from vlib import schedfuzz, srvharness as SH, srvtargets as ST, watch

PROPERTY = 'C06'
LEVEL = 'exploration'
RULE = ('server lifetimes with capacity 1-4 and 2-16 concurrent callers (threads or asyncio tasks), backpressure on/off, mixes of success, failure, '
        'timeouts with deadline ~ service time, abandoned streams, cancelled asyncio tasks, under the schedule fuzzer (targeted on the wait/insert '
        'window of _enqueue and on the gather/notify threads); monitors: ledger shadow evaluated inside the server\'s own critical section, public '
        'backlog sampled at every client call/return and inside every worker call, Condition.wait counter per thread, worker call log. '
        'non-trivial = the backlog reached capacity and >=1 request was rejected or waited; distinct = distinct (scenario, capacity, callers, seed); process-servlet lifetimes (onboarding thread + pipe) with 0.3-3 MB payloads, slow workers and short deadlines')
ASSUMPTIONS = ['"idle" = every caller has returned and the worker call log has not grown for 1 s; backlog must then reach 0 within 10 s',
               '"waits no longer than its timeout" is checked only in a scenario with service time 3 s vs timeout 0.1 s (verdict threshold 1.5 s)']
CASE_TIMEOUT = 200
PARALLEL = 14
GROUP = 1
BOUND = 90


def gen_cases(tier, seed):
    rng = random.Random(seed)
    cases = []
    n = 90 if tier == 'quick' else 2000
    for i in range(n):
        r = random.Random(rng.randrange(1 << 30))
        cases.append({'scenario': 'mix', 'mode': 'async' if i % 3 == 1 else 'sync', 'capacity': r.choice([1, 1, 2, 3, 4]),
                      'callers': r.choice([2, 3, 4, 8, 16]), 'per_caller': r.choice([8, 20, 40]), 'workers': r.choice([1, 2, 3]),
                      'batch': r.choice([0, 0, 3]), 'fuzz': r.random() < 0.85, 'seed': r.randrange(1 << 30)})
    # process workers: requests pass through the onboarding thread and an OS pipe; large payloads and slow workers keep
    # accepted requests waiting in front of the pipe while their callers give up
    for i in range(8 if tier == 'quick' else 120):
        r = random.Random(rng.randrange(1 << 30))
        cases.append({'scenario': 'mix', 'mode': 'async' if i % 4 == 3 else 'sync', 'capacity': r.choice([2, 3, 4]), 'callers': r.choice([3, 4, 5]), 'per_caller': 6,
                      'workers': r.choice([1, 2]), 'batch': 0, 'fuzz': False, 'process': True, 'pt': i % 2 == 1, 'seed': r.randrange(1 << 30)})
    for i in range(3 if tier == 'quick' else 20):
        cases.append({'scenario': 'wait-bound', 'mode': 'async' if i % 2 else 'sync', 'capacity': 1, 'seed': rng.randrange(1 << 30)})
    # the block is left while callers are still waiting for room
    for i, (mode, cap, nw) in enumerate([('sync', 1, 2), ('async', 1, 2), ('sync', 2, 3), ('async', 2, 1), ('sync', 1, 1), ('async', 1, 4)]):
        if tier == 'quick' and i >= 4:
            break
        cases.append({'scenario': 'exit-with-waiters', 'mode': mode, 'capacity': cap, 'waiters': nw, 'seed': rng.randrange(1 << 30)})
    # a big request in transfer to a busy worker process must not hold up other callers (three queue layouts)
    for i, (layout, mode) in enumerate([('PT', 'sync'), ('PT', 'async'), ('P', 'sync'), ('TP', 'sync'), ('P', 'async'), ('TP', 'async')]):
        if tier == 'quick' and i >= 4:
            break
        cases.append({'scenario': 'stalled-pipe', 'layout': layout, 'mode': mode, 'capacity': 2, 'seed': rng.randrange(1 << 30)})
    # the slot is back by the time the result is: sequential callers with backpressure, the gather thread delayed after it completes a future
    for i in range(4 if tier == 'quick' else 24):
        cases.append({'scenario': 'slot-return', 'mode': 'sync' if i % 4 != 3 else 'async', 'capacity': [1, 1, 2, 1][i % 4], 'n': 120, 'seed': rng.randrange(1 << 30)})
    # the same bound while competing callers keep taking every freed slot: the waiter is woken again and again and loses each race
    for i in range(4 if tier == 'quick' else 24):
        cases.append({'scenario': 'wait-bound', 'contended': True, 'mode': 'sync' if i % 2 else 'async', 'capacity': 1 + (i // 2) % 2,
                      'service': [0.05, 0.02, 0.1][i % 3], 'seed': rng.randrange(1 << 30)})
    return cases


class CountingCondition(threading.Condition):
    waits = {}

    def wait(self, timeout=None):
        t = threading.get_ident()
        CountingCondition.waits[t] = CountingCondition.waits.get(t, 0) + 1
        return super().wait(timeout)


class _ThreadingProxy:
    """Stands in for the module-global `threading` of mpservice.mpserver._server: only Condition differs."""

    def __init__(self, real):
        self._real = real
        self.Condition = CountingCondition

    def __getattr__(self, k):
        return getattr(self._real, k)


BIG = {'on': False}


def _mk_tok(client, s, rng):
    plan = []
    r = rng.random()
    if r < 0.15:
        plan.append(('A', 'fail', None))
    if rng.random() < 0.5:
        plan.append(('A', 'sleep', rng.choice([0.0005, 0.002, 0.004]) if not BIG['on'] else rng.choice([0.01, 0.1, 0.25])))
    if BIG['on'] and rng.random() < 0.3:
        plan.append(('_', 'pad', 'x' * rng.choice([300_000, 1_000_000, 3_000_000])))
    return ('tok', client, s, tuple(plan))


def run_case(case):
    import mpservice.mpserver._server as SV
    from mpservice._common import TimeoutError as MpTimeout
    from mpservice.mpserver import AsyncServer, Server, ServerBacklogFull, ThreadServlet

    rng = random.Random(case['seed'])
    viol = []
    cap = case['capacity']
    obs = {'lifetimes': 1, 'requests': 0, 'accepted': 0, 'rejected_at_once': 0, 'rejected_after_wait': 0, 'timeouts': 0, 'abandoned_streams': 0,
           'cancelled_tasks': 0, 'backlog_samples': 0, 'max_backlog_minus_capacity': -99, 'reached_capacity': 0, 'idle_checks': 0}
    ST.CALL_LOG.clear()
    samples = {'n': 0, 'max': 0}
    lock = threading.Lock()
    rejected = set()
    accepted_ids = set()
    real_threading = SV.threading
    SV.threading = _ThreadingProxy(real_threading)
    CountingCondition.waits = {}
    dr = watch.DeathRecorder().install()

    if case['scenario'] == 'exit-with-waiters':
        return _exit_with_waiters(case, viol, obs, SV, real_threading, dr)
    if case['scenario'] == 'stalled-pipe':
        return _stalled_pipe(case, viol, obs, SV, real_threading, dr)
    if case['scenario'] == 'slot-return':
        return _slot_return(case, viol, obs, SV, real_threading, dr)
    if case['scenario'] == 'wait-bound':
        if case.get('contended'):
            return _wait_bound_contended(case, viol, obs, SV, real_threading, dr)
        return _wait_bound(case, viol, obs, SV, real_threading, dr)

    kw = {'batch_size': case['batch'], 'batch_wait_time': 0.002} if case['batch'] else {}
    BIG['on'] = bool(case.get('process'))
    if case.get('process'):
        from mpservice.mpserver import ProcessServlet

        servlet = ProcessServlet(ST.TagWorker, cpus=[None] * case['workers'], tag='A')
        if case.get('pt'):
            # first stage in processes, last stage in a thread: the server's input queue is a pipe, its output queue is not
            from mpservice.mpserver import SequentialServlet

            servlet = SequentialServlet(servlet, ThreadServlet(ST.TagWorker, tag='B', num_threads=1))
    else:
        servlet = ThreadServlet(ST.TagWorker, tag='A', num_threads=case['workers'], **kw)
    is_async = case['mode'] == 'async'
    server = (AsyncServer if is_async else Server)(servlet, capacity=cap)
    shadow = SH.install_ledger_shadow(server)

    def sample():
        b = server.backlog
        with lock:
            samples['n'] += 1
            if b > samples['max']:
                samples['max'] = b

    ST.PROBE = sample
    fz = schedfuzz.SchedFuzz(seed=case['seed'], p=0.03, changepoints=2, changepoint_delay=0.008) if case['fuzz'] else schedfuzz.NullFuzz()
    fz.add(SV.Server._enqueue, SV.Server._gather_output, SV.AsyncServer._enqueue, SV.AsyncServer._gather_output, SV.Server._wait_for_result)
    fz.add_site(SV.Server._enqueue, 'self._pipeline_notfull.wait(', prob=0.4, delay=0.003, where='after', name='sync-after-wait')
    fz.add_site(SV.Server._gather_output, 'fut = pipeline.pop(uid)', prob=0.1, delay=0.002, where='after', name='gather-after-pop')

    def note(tok, outcome, bp, waits_before, tident, elapsed=0.0, dl=None):
        with lock:
            obs['requests'] += 1
            # wall-clock margins of 1.5 s: a rejection under backpressure involves no waiting at all; without it, nothing waits beyond its timeout
            if bp and isinstance(outcome, ServerBacklogFull) and elapsed > 1.5:
                viol.append({'mech': 'backlog/backpressure-rejection-delayed', 'msg': f'backpressure=True: the caller was held {elapsed:.2f}s before it was rejected with {outcome!r}'})
            if dl is not None and isinstance(outcome, (ServerBacklogFull, MpTimeout, TimeoutError)) and elapsed > dl + 1.5:
                viol.append({'mech': 'backlog/no-backpressure-wait-exceeds-timeout', 'msg': f'call with timeout {dl}s (backpressure={bp}) came back after {elapsed:.2f}s with {outcome!r}'})
            obs['max_overshoot_ms'] = max(obs.get('max_overshoot_ms', 0), int(1000 * (elapsed - (dl or 0)))) if isinstance(outcome, (ServerBacklogFull, MpTimeout, TimeoutError)) else obs.get('max_overshoot_ms', 0)
            if isinstance(outcome, ServerBacklogFull):
                n_, x_ = outcome.args
                rejected.add((tok[1], tok[2]))
                if bp:
                    if x_ is not None:
                        viol.append({'mech': 'backlog/rejected-after-wait-with-backpressure', 'msg': f'backpressure=True but ServerBacklogFull reports a wait of {x_}'})
                    if not is_async and CountingCondition.waits.get(tident, 0) != waits_before:
                        viol.append({'mech': 'backlog/rejected-after-wait-with-backpressure', 'msg': 'the rejected caller waited on the capacity condition before being rejected'})
                    obs['rejected_at_once'] += 1
                else:
                    obs['rejected_after_wait'] += 1
            else:
                accepted_ids.add((tok[1], tok[2]))
                obs['accepted'] += 1
                if isinstance(outcome, (MpTimeout, TimeoutError)):
                    obs['timeouts'] += 1

    def sync_body():
        def caller(c):
            r = random.Random(case['seed'] * 31 + c)
            tident = threading.get_ident()
            if c % 5 == 4:
                # a stream that is abandoned after a few outputs
                toks = [_mk_tok(c, s, r) for s in range(case['per_caller'])]
                it = server.stream(iter(toks), return_exceptions=True, timeout=5)
                k = 0
                for _ in it:
                    sample()
                    k += 1
                    if k >= 3:
                        break
                it.close()
                with lock:
                    obs['abandoned_streams'] += 1
                    for t in toks:
                        accepted_ids.add((t[1], t[2]))  # some of them; the idle rule does not need the exact set
                return
            for s in range(case['per_caller']):
                tok = _mk_tok(c, s, r)
                bp = r.random() < (0.5 if not BIG['on'] else 0.15)
                dl = r.choice([5, 5, 0.003, 0.006, 0.02]) if not BIG['on'] else r.choice([20, 20, 0.02, 0.08, 0.2])
                w0 = CountingCondition.waits.get(tident, 0)
                sample()
                t_call = time.monotonic()
                try:
                    y = server.call(tok, timeout=dl, backpressure=bp)
                except BaseException as e:  # noqa: BLE001
                    y = e
                el = time.monotonic() - t_call
                sample()
                note(tok, y, bp, w0, tident, el, dl)

        ths = [threading.Thread(target=caller, args=(c,), name=f'caller-{c}') for c in range(case['callers'])]
        for t in ths:
            t.start()
        for t in ths:
            t.join()

    async def async_body():
        async def caller(c):
            r = random.Random(case['seed'] * 31 + c)
            if c % 5 == 4:
                toks = [_mk_tok(c, s, r) for s in range(case['per_caller'])]

                async def src():
                    for t in toks:
                        yield t

                ait = server.stream(src(), return_exceptions=True, timeout=5)
                k = 0
                async for _ in ait:
                    sample()
                    k += 1
                    if k >= 3:
                        break
                await ait.aclose()
                obs['abandoned_streams'] += 1
                return
            for s in range(case['per_caller']):
                tok = _mk_tok(c, s, r)
                bp = r.random() < (0.5 if not BIG['on'] else 0.15)
                dl = r.choice([5, 5, 0.003, 0.006, 0.02]) if not BIG['on'] else r.choice([20, 20, 0.02, 0.08, 0.2])
                sample()
                if r.random() < 0.1:
                    # a task cancelled while it waits for its result
                    t = asyncio.ensure_future(server.call(tok, timeout=5, backpressure=False))
                    await asyncio.sleep(r.choice([0, 0.0005, 0.002]))
                    t.cancel()
                    try:
                        await t
                    except (asyncio.CancelledError, Exception):
                        pass
                    obs['cancelled_tasks'] += 1
                    obs['requests'] += 1
                    continue
                t_call = time.monotonic()
                try:
                    y = await server.call(tok, timeout=dl, backpressure=bp)
                except Exception as e:  # noqa: BLE001
                    y = e
                el = time.monotonic() - t_call
                sample()
                note(tok, y, bp, 0, 0, el, dl)

        await asyncio.gather(*[caller(c) for c in range(case['callers'])])

    def idle_check(where):
        # every caller has returned; once the workers are idle the backlog must go to zero
        t_end = time.monotonic() + (10 if not BIG['on'] else 30)
        last_n, last_change = len(ST.CALL_LOG), time.monotonic()
        while time.monotonic() < t_end:
            if server.backlog == 0:
                break
            n = len(ST.CALL_LOG)
            if n != last_n:
                last_n, last_change = n, time.monotonic()
            time.sleep(0.01)
        obs['idle_checks'] += 1
        if server.backlog != 0:
            viol.append({'mech': f'backlog/slot-not-returned/{where}', 'msg': f'all callers returned and workers idle for {time.monotonic() - last_change:.1f}s but backlog is {server.backlog} '
                         f'(capacity {cap}); ledger keys {list(server._uid_to_futures)[:5]}'})

    def lifetime():
        if is_async:
            async def main():
                async with server:
                    with fz:
                        await async_body()
                    await asyncio.get_running_loop().run_in_executor(None, idle_check, 'running')
            asyncio.run(main())
        else:
            with server:
                with fz:
                    sync_body()
                idle_check('running')
        if server.backlog != 0:
            viol.append({'mech': 'backlog/slot-not-returned/after-exit', 'msg': f'backlog is {server.backlog} after __exit__'})

    try:
        watch.run_bounded(lifetime, BOUND, 'server lifetime')
    except watch.Hang as h:
        viol.append({'mech': 'backlog/hang', 'msg': 'server lifetime did not finish; stacks stable', 'stacks': h.stacks})
        return {'violations': viol, 'obs': obs, 'exit_after': True, 'fuzz': fz.stats()}
    except watch.Inconclusive as e:
        return {'violations': viol, 'obs': obs, 'inconclusive': str(e), 'exit_after': True}
    finally:
        SV.threading = real_threading
        ST.PROBE = None
        dr.uninstall()
    obs['backlog_samples'] = samples['n']
    mx = max(samples['max'], shadow.max_len if shadow else 0)
    obs['max_backlog_minus_capacity'] = mx - cap
    obs['reached_capacity'] = 1 if mx >= cap else 0
    if shadow is not None and shadow.max_len > cap:
        viol.append({'mech': 'backlog/exceeds-capacity', 'msg': f'ledger held {shadow.max_len} requests with capacity {cap} ({case["mode"]}, {case["callers"]} callers)'})
    elif samples['max'] > cap:
        viol.append({'mech': 'backlog/exceeds-capacity', 'msg': f'server.backlog sampled at {samples["max"]} with capacity {cap}'})
    # a rejected request leaves no trace: no worker ever saw it
    seen = set()
    for tag, widx, ids, batched in ST.CALL_LOG:
        for i in (ids if batched else [ids]):
            if isinstance(i, (list, tuple)) and len(i) == 2:
                seen.add(tuple(i))
    leaked = rejected & seen
    if leaked:
        viol.append({'mech': 'backlog/rejected-request-left-a-trace', 'msg': f'requests rejected with ServerBacklogFull were seen by a worker: {sorted(leaked)[:5]}'})
    if shadow is not None and shadow.misses:
        viol.append({'mech': 'backlog/result-for-unknown-id', 'msg': f'{len(shadow.misses)} results for ids not in the ledger'})
    deaths = dr.snapshot()
    if deaths:
        viol.append({'mech': 'backlog/helper-thread-died', 'msg': f'{deaths[0]}'[:600]})
    nontrivial = obs['reached_capacity'] == 1 and (obs['rejected_at_once'] + obs['rejected_after_wait'] + sum(CountingCondition.waits.values())) > 0
    obs['process_lifetimes'] = 1 if case.get('process') else 0
    res = {'violations': viol[:6], 'obs': obs, 'nontrivial': nontrivial,
           'sig': hash((case['mode'], cap, case['callers'], case['workers'], case['seed'])) & 0xFFFFFFFFFFFF,
           'sample': {'mode': case['mode'], 'capacity': cap, 'callers': case['callers'], 'workers': case['workers'], 'batch': case['batch'],
                      'requests': obs['requests'], 'accepted': obs['accepted'], 'rejected_at_once': obs['rejected_at_once'],
                      'rejected_after_wait': obs['rejected_after_wait'], 'timeouts': obs['timeouts'], 'max_backlog': mx,
                      'condition_waits': sum(CountingCondition.waits.values())}}
    if case['fuzz']:
        res['fuzz'] = fz.stats()
    if viol or case.get('process'):
        res['exit_after'] = True
    return res


def _exit_with_waiters(case, viol, obs, SV, real_threading, dr):
    """The server block is left while callers are still waiting for room (backpressure off).  Once those callers have come back, the stopped
    server holds nothing; entered again, the same object is idle with backlog 0 and accepts a plain call."""
    from mpservice.mpserver import AsyncServer, Server, ServerBacklogFull, ThreadServlet

    cap = case['capacity']
    nw = case['waiters']
    box = {'outcomes': []}

    def sync_run():
        server = Server(ThreadServlet(ST.TagWorker, tag='A', num_threads=cap), capacity=cap)
        ths = []
        with server:
            for k in range(cap):
                t = threading.Thread(target=lambda k=k: box['outcomes'].append(_try(lambda: server.call(('tok', k, 0, (('A', 'sleep', 0.4),)), timeout=10))), name=f'holder-{k}')
                t.start()
                ths.append(t)
            while server.backlog < cap:
                time.sleep(0.001)
            for k in range(nw):
                t = threading.Thread(target=lambda k=k: box['outcomes'].append(_try(lambda: server.call(('tok', 50 + k, 0, ()), timeout=1.5, backpressure=False))), name=f'waiter-{k}')
                t.start()
                ths.append(t)
            time.sleep(0.1)
        for t in ths:
            t.join()
        box['after_exit'] = server.backlog
        with server:
            time.sleep(0.05)
            box['reentered_idle'] = server.backlog
            box['plain'] = _try(lambda: server.call(('tok', 99, 0, ()), timeout=5))
        box['final'] = server.backlog

    async def async_run():
        server = AsyncServer(ThreadServlet(ST.TagWorker, tag='A', num_threads=cap), capacity=cap)

        async def one(t, **kw):
            try:
                return await server.call(t, **kw)
            except Exception as e:  # noqa: BLE001
                return e

        async with server:
            tasks = [asyncio.ensure_future(one(('tok', k, 0, (('A', 'sleep', 0.4),)), timeout=10)) for k in range(cap)]
            while server.backlog < cap:
                await asyncio.sleep(0.001)
            tasks += [asyncio.ensure_future(one(('tok', 50 + k, 0, ()), timeout=1.5, backpressure=False)) for k in range(nw)]
            await asyncio.sleep(0.1)
        box['outcomes'] = list(await asyncio.gather(*tasks))
        box['after_exit'] = server.backlog
        async with server:
            await asyncio.sleep(0.05)
            box['reentered_idle'] = server.backlog
            box['plain'] = await one(('tok', 99, 0, ()), timeout=5)
        box['final'] = server.backlog

    def _try(f):
        try:
            return f()
        except BaseException as e:  # noqa: BLE001
            return e

    try:
        watch.run_bounded((lambda: asyncio.run(async_run())) if case['mode'] == 'async' else sync_run, 60, 'exit-with-waiters scenario')
    except watch.Hang as h:
        viol.append({'mech': 'backlog/hang', 'msg': 'exit-with-waiters scenario did not finish', 'stacks': h.stacks})
        return {'violations': viol, 'obs': obs, 'exit_after': True}
    finally:
        SV.threading = real_threading
        dr.uninstall()
    obs['requests'] = cap + nw + 1
    obs['exit_with_waiters_runs'] = 1
    obs['idle_checks'] = 2
    what = f'{case["mode"]}, capacity {cap}, {nw} callers waiting for room when the block was left'
    if box.get('after_exit'):
        viol.append({'mech': 'backlog/slot-not-returned/after-exit', 'msg': f'{what}: backlog is {box["after_exit"]} on the stopped server after every caller has come back'})
    if box.get('reentered_idle'):
        viol.append({'mech': 'backlog/slot-not-returned/reentered-idle', 'msg': f'{what}: the same server entered again is idle but reports backlog {box["reentered_idle"]}'})
    if box.get('plain') != ('A', ('tok', 99, 0, ())):
        viol.append({'mech': 'backlog/idle-server-rejects', 'msg': f'{what}: a plain call on the re-entered idle server got {box.get("plain")!r}'})
    return {'violations': viol, 'obs': obs, 'nontrivial': True, 'sig': hash(('exit-with-waiters', case['mode'], cap, nw)) & 0xFFFFFFFFFFFF,
            'sample': {'scenario': 'exit-with-waiters', 'mode': case['mode'], 'capacity': cap, 'waiters': nw, 'outcomes': [repr(o)[:50] for o in box['outcomes']],
                       'backlog_after_exit': box.get('after_exit'), 'backlog_reentered_idle': box.get('reentered_idle')}}


def _stalled_pipe(case, viol, obs, SV, real_threading, dr):
    """The only worker process is busy for 3 s and a 4 MB request sits (partly) in the pipe in front of it; the server is full.  A caller with
    backpressure must be rejected at once, one without must give up by its own deadline -- nobody may be held up by the big request's
    transfer.  Layouts: process stage only / process stage then thread stage / thread stage then process stage."""
    from mpservice.mpserver import AsyncServer, ProcessServlet, SequentialServlet, Server, ServerBacklogFull, ThreadServlet

    P = lambda tag: ProcessServlet(ST.TagWorker, cpus=[None], tag=tag)  # noqa: E731
    T = lambda tag: ThreadServlet(ST.TagWorker, tag=tag, num_threads=1)  # noqa: E731
    servlet = {'P': lambda: P('A'), 'PT': lambda: SequentialServlet(P('A'), T('B')), 'TP': lambda: SequentialServlet(T('B'), P('A'))}[case['layout']]()
    slow = ('tok', 0, 0, (('A', 'sleep', 3.0),))
    big = ('tok', 1, 0, (('_', 'pad', 'x' * 4_000_000),))
    box = {}

    def judge():
        c, d = box.get('C'), box.get('D')
        if not isinstance(c[0], ServerBacklogFull) or c[1] > 1.5:
            viol.append({'mech': 'backlog/backpressure-rejection-delayed', 'msg': f'layout {case["layout"]}, {case["mode"]}: full server, backpressure=True: got {c[0]!r:.80} after {c[1]:.2f}s (a 4 MB request was in transfer to a busy worker)'})
        else:
            obs['rejected_at_once'] = obs.get('rejected_at_once', 0) + 1
        if d[1] > 0.5 + 1.5:
            viol.append({'mech': 'backlog/no-backpressure-wait-exceeds-timeout', 'msg': f'layout {case["layout"]}, {case["mode"]}: timeout 0.5 s, backpressure=False: got {d[0]!r:.80} after {d[1]:.2f}s'})
        elif isinstance(d[0], ServerBacklogFull):
            obs['rejected_after_wait'] = obs.get('rejected_after_wait', 0) + 1

    def timed(f):
        t0 = time.monotonic()
        try:
            y = f()
        except BaseException as e:  # noqa: BLE001
            y = e
        return y, time.monotonic() - t0

    def sync_run():
        with Server(servlet, capacity=2) as server:
            ta = threading.Thread(target=lambda: box.__setitem__('A', timed(lambda: server.call(slow, timeout=30))), name='caller-A')
            ta.start()
            time.sleep(0.4)
            tb = threading.Thread(target=lambda: box.__setitem__('B', timed(lambda: server.call(big, timeout=30, backpressure=False))), name='caller-B')
            tb.start()
            time.sleep(0.4)
            tcs = [threading.Thread(target=lambda: box.__setitem__('C', timed(lambda: server.call(('tok', 2, 0, ()), timeout=5, backpressure=True))), name='caller-C'),
                   threading.Thread(target=lambda: box.__setitem__('D', timed(lambda: server.call(('tok', 3, 0, ()), timeout=0.5, backpressure=False))), name='caller-D')]
            for t in tcs:
                t.start()
            for t in tcs + [ta, tb]:
                t.join()

    async def async_run():
        async with AsyncServer(servlet, capacity=2) as server:
            async def atimed(coro):
                t0 = time.monotonic()
                try:
                    y = await coro
                except Exception as e:  # noqa: BLE001
                    y = e
                return y, time.monotonic() - t0

            ta = asyncio.ensure_future(atimed(server.call(slow, timeout=30)))
            await asyncio.sleep(0.4)
            tb = asyncio.ensure_future(atimed(server.call(big, timeout=30, backpressure=False)))
            await asyncio.sleep(0.4)
            t0 = time.monotonic()
            c, d = await asyncio.gather(atimed(server.call(('tok', 2, 0, ()), timeout=5, backpressure=True)),
                                        atimed(server.call(('tok', 3, 0, ()), timeout=0.5, backpressure=False)))
            # measured from the moment both were issued (a frozen event loop delays the very start of the coroutines)
            box['C'] = c
            box['D'] = d
            box['loop_stall'] = time.monotonic() - t0
            box['A'], box['B'] = await ta, await tb

    try:
        watch.run_bounded((lambda: asyncio.run(async_run())) if case['mode'] == 'async' else sync_run, 60, 'stalled-pipe scenario')
    except watch.Hang as h:
        viol.append({'mech': 'backlog/hang', 'msg': 'stalled-pipe scenario did not finish', 'stacks': h.stacks})
        return {'violations': viol, 'obs': obs, 'exit_after': True}
    finally:
        SV.threading = real_threading
        dr.uninstall()
    obs['requests'] = 4
    obs['stalled_pipe_runs'] = 1
    judge()
    if case['mode'] == 'async' and box.get('loop_stall', 0) > 0.5 + 1.5:
        viol.append({'mech': 'backlog/no-backpressure-wait-exceeds-timeout', 'msg': f'layout {case["layout"]}, async: the two short requests took {box["loop_stall"]:.2f}s to come back (event loop held up)'})
    for k in ('A', 'B'):
        if isinstance(box.get(k, (None,))[0], BaseException):
            viol.append({'mech': 'backlog/accepted-request-failed', 'msg': f'request {k} got {box[k][0]!r:.100}'})
    return {'violations': viol, 'obs': obs, 'nontrivial': True, 'sig': hash(('stalled-pipe', case['mode'], case['layout'])) & 0xFFFFFFFFFFFF, 'exit_after': True,
            'sample': {'scenario': 'stalled-pipe', 'mode': case['mode'], 'layout': case['layout'], 'C': repr(box['C'][0])[:60], 'C_s': round(box['C'][1], 3), 'D': repr(box['D'][0])[:60], 'D_s': round(box['D'][1], 3)}}


def _wait_bound_contended(case, viol, obs, SV, real_threading, dr):
    """`capacity` closed-loop callers keep the server full for 3.5 s (each takes the slot its own finished request freed); a request
    without backpressure and timeout 0.4 s is woken at every completion, finds the server full again, and must still give up (or be
    served) by its own deadline.  Verdict margin 1.5 s; the hogs run 3.5 s, so a waiter whose allowance restarts at every wake-up
    ends at about 3.5 s."""
    from mpservice.mpserver import AsyncServer, Server, ServerBacklogFull, ThreadServlet

    cap = case['capacity']
    servlet = ThreadServlet(ST.TagWorker, tag='A', num_threads=cap)
    svc = case['service']
    T, H = 0.4, 3.5
    box = {'hog_calls': 0, 'hog_rejected': 0}

    def tok(c, i):
        return ('tok', c, i, (('A', 'sleep', svc),))

    def sync_run():
        with Server(servlet, capacity=cap) as server:
            stop = time.monotonic() + H

            def hog(c):
                i = 0
                while time.monotonic() < stop:
                    try:
                        server.call(tok(c, i), timeout=10)
                        box['hog_calls'] += 1
                    except ServerBacklogFull:
                        box['hog_rejected'] += 1
                        time.sleep(0.001)
                    i += 1

            ths = [threading.Thread(target=hog, args=(c,), name=f'hog-{c}') for c in range(cap)]
            for t in ths:
                t.start()
            while server.backlog < cap:
                time.sleep(0.001)
            t0 = time.monotonic()
            try:
                box['short'] = server.call(tok(99, 0), timeout=T, backpressure=False)
            except BaseException as e:  # noqa: BLE001
                box['short'] = e
            box['elapsed'] = time.monotonic() - t0
            for t in ths:
                t.join()

    async def async_run():
        async with AsyncServer(servlet, capacity=cap) as server:
            stop = time.monotonic() + H

            async def hog(c):
                i = 0
                while time.monotonic() < stop:
                    try:
                        await server.call(tok(c, i), timeout=10)
                        box['hog_calls'] += 1
                    except ServerBacklogFull:
                        box['hog_rejected'] += 1
                        await asyncio.sleep(0.001)
                    i += 1

            hs = [asyncio.ensure_future(hog(c)) for c in range(cap)]
            while server.backlog < cap:
                await asyncio.sleep(0.001)
            t0 = time.monotonic()
            try:
                box['short'] = await server.call(tok(99, 0), timeout=T, backpressure=False)
            except Exception as e:  # noqa: BLE001
                box['short'] = e
            box['elapsed'] = time.monotonic() - t0
            await asyncio.gather(*hs)

    try:
        watch.run_bounded((lambda: asyncio.run(async_run())) if case['mode'] == 'async' else sync_run, 60, 'contended wait-bound scenario')
    except watch.Hang as h:
        viol.append({'mech': 'backlog/hang', 'msg': 'contended wait-bound scenario did not finish', 'stacks': h.stacks})
        return {'violations': viol, 'obs': obs, 'exit_after': True}
    finally:
        SV.threading = real_threading
        dr.uninstall()
    obs['requests'] = 1 + box['hog_calls'] + box['hog_rejected']
    obs['wait_bound_runs'] = 1
    obs['wait_bound_contended_runs'] = 1
    obs['competing_completions_during_wait'] = box['hog_calls']
    el = box.get('elapsed', 0)
    if el > T + 1.5:
        viol.append({'mech': 'backlog/no-backpressure-wait-exceeds-timeout',
                     'msg': f'request with timeout {T} s and backpressure=False got {box.get("short")!r:.80} after {el:.2f}s while {cap} competing caller(s) kept the server full'})
    elif isinstance(box.get('short'), (ServerBacklogFull, TimeoutError)):
        obs['rejected_after_wait'] = 1
    return {'violations': viol, 'obs': obs, 'nontrivial': box['hog_calls'] >= 5, 'sig': hash(('wait-bound-c', case['mode'], case['seed'])) & 0xFFFFFFFFFFFF,
            'sample': {'scenario': 'wait-bound-contended', 'mode': case['mode'], 'capacity': cap, 'short_request_outcome': repr(box.get('short'))[:120],
                       'waited_s': round(el, 3), 'competing_calls': box['hog_calls']}}


def _slot_return(case, viol, obs, SV, real_threading, dr):
    """"Every accepted request gives its slot back when its result emerges": one caller (or exactly `capacity` callers in lock step) issues
    requests strictly one after the other with backpressure on.  Whoever holds a result must find its slot returned: backlog is 0 when the
    caller looks, and the next request is never rejected.  The gather thread is delayed at every statement after it has completed a future."""
    from mpservice.mpserver import AsyncServer, Server, ServerBacklogFull, ThreadServlet

    cap = case['capacity']
    servlet = ThreadServlet(ST.TagWorker, tag='A', num_threads=cap)
    is_async = case['mode'] == 'async'
    srv_cls = AsyncServer if is_async else Server
    fz = schedfuzz.SchedFuzz(seed=case['seed'], p=0.0)
    for pat in ("fut.data['t2'] = perf_counter()", 'q_notify.put(1)', 'fut.set_result(y)', 'fut.set_exception(y)'):
        fz.add_site(srv_cls._gather_output, pat, prob=0.4, delay=0.002, where='before', name='gather:' + pat[:18])
        fz.add_site(srv_cls._gather_output, pat, prob=0.4, delay=0.002, where='after', name='gather-after:' + pat[:18])
    box = {'bad': []}
    n = case['n']

    def sync_run():
        with Server(servlet, capacity=cap) as server:
            with fz:
                for i in range(n):
                    plan = (('A', 'fail', None),) if i % 5 == 3 else ()
                    try:
                        server.call(('tok', 0, i, plan), timeout=20, backpressure=True)
                    except ServerBacklogFull as e:
                        box['bad'].append(('rejected', i, repr(e)))
                        break
                    except Exception:  # noqa: BLE001  (the planned failures)
                        pass
                    b = server.backlog
                    obs['idle_checks'] += 1
                    if b != 0:
                        box['bad'].append(('backlog', i, b))
                        break

    async def async_run():
        async with AsyncServer(servlet, capacity=cap) as server:
            with fz:
                for i in range(n):
                    plan = (('A', 'fail', None),) if i % 5 == 3 else ()
                    try:
                        await server.call(('tok', 0, i, plan), timeout=20, backpressure=True)
                    except ServerBacklogFull as e:
                        box['bad'].append(('rejected', i, repr(e)))
                        break
                    except Exception:  # noqa: BLE001
                        pass
                    b = server.backlog
                    obs['idle_checks'] += 1
                    if b != 0:
                        box['bad'].append(('backlog', i, b))
                        break

    try:
        watch.run_bounded((lambda: asyncio.run(async_run())) if is_async else sync_run, 60, 'slot-return scenario')
    except watch.Hang as h:
        viol.append({'mech': 'backlog/hang', 'msg': 'slot-return scenario did not finish', 'stacks': h.stacks})
        return {'violations': viol, 'obs': obs, 'exit_after': True}
    finally:
        SV.threading = real_threading
        dr.uninstall()
    obs['requests'] = obs['idle_checks']
    obs['accepted'] = obs['idle_checks']
    obs['slot_return_runs'] = 1
    for kind, i, what in box['bad']:
        if kind == 'rejected':
            viol.append({'mech': 'backlog/rejected-although-not-full', 'msg': f'{case["mode"]} capacity {cap}, a single sequential caller: request #{i} was rejected with {what} although the caller holds the results of all earlier requests'})
        else:
            viol.append({'mech': 'backlog/slot-not-returned-when-result-emerges', 'msg': f'{case["mode"]} capacity {cap}, a single sequential caller: backlog is {what} right after request #{i} returned its result'})
    st = fz.stats()
    return {'violations': viol, 'obs': obs, 'nontrivial': True, 'sig': hash(('slot-return', case['mode'], cap, case['seed'])) & 0xFFFFFFFFFFFF, 'fuzz': st,
            'sample': {'scenario': 'slot-return', 'mode': case['mode'], 'capacity': cap, 'calls': obs['idle_checks'], 'site_hits': st.get('site_hits')}}


def _wait_bound(case, viol, obs, SV, real_threading, dr):
    """capacity 1, one 3 s request in flight; a second request without backpressure and timeout 0.1 s must give up by itself."""
    from mpservice.mpserver import AsyncServer, Server, ServerBacklogFull, ThreadServlet

    servlet = ThreadServlet(ST.TagWorker, tag='A', num_threads=1)
    long_tok = ('tok', 0, 0, (('A', 'sleep', 3.0),))
    short_tok = ('tok', 1, 0, ())
    box = {}

    def sync_run():
        with Server(servlet, capacity=1) as server:
            t = threading.Thread(target=lambda: box.__setitem__('long', server.call(long_tok, timeout=30)), name='caller-long')
            t.start()
            while server.backlog == 0:
                time.sleep(0.001)
            t0 = time.monotonic()
            try:
                box['short'] = server.call(short_tok, timeout=0.1, backpressure=False)
            except BaseException as e:  # noqa: BLE001
                box['short'] = e
            box['elapsed'] = time.monotonic() - t0
            t.join()

    async def async_run():
        async with AsyncServer(servlet, capacity=1) as server:
            t = asyncio.ensure_future(server.call(long_tok, timeout=30))
            while server.backlog == 0:
                await asyncio.sleep(0.001)
            t0 = time.monotonic()
            try:
                box['short'] = await server.call(short_tok, timeout=0.1, backpressure=False)
            except Exception as e:  # noqa: BLE001
                box['short'] = e
            box['elapsed'] = time.monotonic() - t0
            box['long'] = await t

    try:
        watch.run_bounded((lambda: asyncio.run(async_run())) if case['mode'] == 'async' else sync_run, 60, 'wait-bound scenario')
    except watch.Hang as h:
        viol.append({'mech': 'backlog/hang', 'msg': 'wait-bound scenario did not finish', 'stacks': h.stacks})
        return {'violations': viol, 'obs': obs, 'exit_after': True}
    finally:
        SV.threading = real_threading
        dr.uninstall()
    obs['requests'] = 2
    obs['wait_bound_runs'] = 1
    el = box.get('elapsed', 0)
    if not isinstance(box.get('short'), (ServerBacklogFull, TimeoutError)):
        viol.append({'mech': 'backlog/no-backpressure-wait-exceeds-timeout', 'msg': f'request with timeout 0.1 s at a full server returned {box.get("short")!r} after {el:.2f}s'})
    elif el > 1.5:
        viol.append({'mech': 'backlog/no-backpressure-wait-exceeds-timeout', 'msg': f'request with timeout 0.1 s waited {el:.2f}s for room (service time of the blocking request: 3 s)'})
    else:
        obs['rejected_after_wait'] = 1
    return {'violations': viol, 'obs': obs, 'nontrivial': True, 'sig': hash(('wait-bound', case['mode'], case['seed'])) & 0xFFFFFFFFFFFF,
            'sample': {'scenario': 'wait-bound', 'mode': case['mode'], 'short_request_outcome': repr(box.get('short'))[:120], 'waited_s': round(el, 3)}}


def decide_inconclusive(obs, results, cases):
    if obs.get('reached_capacity', 0) == 0:
        return 'the backlog never reached capacity: the guarded state was not observed'
    if obs.get('rejected_at_once', 0) == 0 or obs.get('rejected_after_wait', 0) == 0:
        return 'no rejection with / without backpressure was observed'
    return None


RULE = RULE + '; stalled-pipe scenario (busy worker, 4 MB request in transfer, layouts P / P>T / T>P, sync and async); contended wait bound; wall-clock margins (1.5 s) on every rejected or timed-out call'
