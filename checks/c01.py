"""C01 — parmap / fifo_stream are order-preserving and exactly-once, for every completion order."""
from __future__ import annotations

import random
import threading
from collections import deque

from vlib import gates, schedfuzz, streamharness as H, watch
from vlib.targets import Boom, norm_exc

PROPERTY = 'C01'
EVALUATIONS_KEYS = ['runs']
LEVEL = 'exploration'
RULE = ('(a) DFS enumeration of every feasible completion order of fifo_stream for n<=5 (quick) / n<=6 (thorough), capacity 1-3, '
        'flags x one failing / one preprocessor-rejected element; (b) seeded runs of fifo_stream (controller-completed futures) '
        'and Stream.parmap(thread) with gated workers, n<=300, FIFO/LIFO/random/block-reversed completion policies, slow/fast '
        'consumer, schedule fuzzer on fifo_stream/feed/SingleLane/Parmapper.__iter__; (c) process executor with duration-carrying '
        'elements; (d) ParmapperAsync. non-trivial = at least one call completed before an earlier-submitted one; '
        'distinct = distinct (configuration, completion order) pairs; (b2) stall profiles: source or consumer pausing 0.09-0.35 s / ~1 s at the first, a middle, the last element or after the end, with delay sites at every exception-handler entry (timed waits that just expired)')
ASSUMPTIONS = ['completion orders of process-pool calls are driven by sleep durations, not by gates',
               'the settle heuristic of the controller only selects which orders are explored']
CASE_TIMEOUT = 150
PARALLEL = 14
GROUP = 1
EXHAUSTIVE = {}
BOUND = 20


class MonDeque(deque):
    """deque that checks what SingleLane promises, inside SingleLane's own mutex."""

    def __init__(self, maxsize, stats, maxlen=None):
        super().__init__(maxlen=maxlen)  # keep whatever bound the original deque was created with
        self._maxsize = maxsize
        self._stats = stats
        self._seq_in = 0
        self._seq_out = 0

    def append(self, item):
        super().append((self._seq_in, item))
        self._seq_in += 1
        st = self._stats
        st['lane_appends'] += 1
        n = len(self)
        if n > st['max_lane_len']:
            st['max_lane_len'] = n
        if self._maxsize and n > self._maxsize:
            st['lane_overflow'] += 1

    def popleft(self):
        seq, item = super().popleft()
        if seq != self._seq_out:
            self._stats['lane_nonfifo'] += 1
        self._seq_out = seq + 1
        return item

    def pop(self):
        seq, item = super().pop()
        if len(self) > 0:
            self._stats['lane_nonfifo'] += 1
        return item


def install_lane_monitor(S, stats):
    """Replace the SingleLane name used by _streamer with a monitored subclass (optional probe)."""
    try:
        Base = S.SingleLane

        class MonLane(Base):
            def __init__(self, maxsize=1_000_000):
                super().__init__(maxsize)
                self._queue = MonDeque(maxsize, stats, getattr(self._queue, 'maxlen', None))

        S.SingleLane = MonLane
        return Base
    except Exception:
        stats['aux_missing'] = 1
        return None


def gen_cases(tier, seed):
    rng = random.Random(seed)
    cases = []
    # (a) DFS
    ns = [3, 4, 5] if tier == 'quick' else [3, 4, 5, 6]
    for n in ns:
        for cap in ([1, 2, 3] if n <= 5 else [1, 2]):
            for rx in (False, True):
                for rexc in (False, True):
                    for plan in ('none', 'fail', 'reject'):
                        if tier == 'quick' and n == 5 and plan != 'fail' and (rx or cap == 3):
                            continue
                        fail_at = rng.randrange(n) if plan != 'none' else None
                        cases.append({'kind': 'dfs', 'n': n, 'capacity': cap, 'return_x': rx, 'return_exceptions': rexc,
                                      'plan': plan, 'fail_at': fail_at, 'max_runs': 900 if tier == 'quick' else 5000})
                    if n <= (3 if tier == 'quick' else 4):
                        # a result that *is* an exception object (returned, not raised)
                        cases.append({'kind': 'dfs', 'n': n, 'capacity': cap, 'return_x': rx, 'return_exceptions': rexc,
                                      'plan': 'errval', 'fail_at': rng.randrange(n), 'max_runs': 900 if tier == 'quick' else 5000})
                        # the submission of an element raises (func raises instead of returning a future), with / without preprocessor
                        for plan in ('subfail', 'subfail+pre'):
                            cases.append({'kind': 'dfs', 'n': n, 'capacity': cap, 'return_x': rx, 'return_exceptions': rexc,
                                          'plan': plan, 'fail_at': rng.randrange(n), 'max_runs': 900 if tier == 'quick' else 5000})
    # (b) seeded
    nb = 120 if tier == 'quick' else 3000
    for i in range(nb):
        kind = rng.choice(['direct', 'direct', 'parmap'])
        n = rng.choice([0, 1, 2, 7, 20, 60, 150, 300]) if kind == 'direct' else rng.choice([0, 1, 5, 20, 60, 120])
        cases.append({'kind': kind, 'n': n, 'capacity': rng.choice([1, 1, 2, 3, 5, 8]), 'concurrency': rng.choice([1, 2, 3, 4, 8]),
                      'return_x': rng.random() < 0.5, 'return_exceptions': rng.random() < 0.7,
                      'fail_rate': rng.choice([0, 0, 0.05, 0.3]), 'reject_rate': rng.choice([0, 0, 0.1]),
                      'policy': rng.choice(['fifo', 'lifo', 'random', 'random', 'blocklifo', 'evenfirst']),
                      'consumer': rng.choice(['fast', 'fast', 'slow']), 'fuzz': rng.random() < 0.8,
                      'seed': rng.randrange(1 << 30)})
    # (b2) stalls: a source or consumer that pauses for about a polling interval (0.1 s, 1 s are the usual constants) at the
    # start, in the middle or right before the end, with dense delay injection in the consumer/feeder hand-off
    for i in range(160 if tier == 'quick' else 2500):
        who = 'source' if i % 4 else 'consumer'
        cases.append({'kind': rng.choice(['direct', 'parmap']), 'n': rng.choice([3, 12, 13]), 'capacity': rng.choice([1, 2, 5]), 'concurrency': rng.choice([1, 2, 4]),
                      'return_x': rng.random() < 0.5, 'return_exceptions': True, 'fail_rate': rng.choice([0, 0.1]), 'reject_rate': 0,
                      'policy': rng.choice(['fifo', 'random']), 'consumer': 'fast', 'fuzz': True, 'fuzz_p': 0.25,
                      'stall': [who, rng.choice(['first', 'mid', 'last', 'last', 'last2', 'after-last']), (round(rng.choice([rng.uniform(0.09, 0.35), rng.uniform(0.09, 0.35), rng.uniform(1.0, 1.08)]), 4) if who == 'source' else rng.choice([0.12, 0.25, 1.1]))],
                      'seed': rng.randrange(1 << 30)})
    # (c) process executor, (d) ParmapperAsync
    for i in range(6 if tier == 'quick' else 150):
        cases.append({'kind': 'process', 'n': rng.choice([1, 12, 40]), 'concurrency': rng.choice([1, 2, 3]),
                      'return_x': rng.random() < 0.5, 'return_exceptions': rng.random() < 0.7, 'fail_rate': rng.choice([0, 0.1]),
                      'seed': rng.randrange(1 << 30)})
    for i in range(6 if tier == 'quick' else 100):
        cases.append({'kind': 'async', 'n': rng.choice([1, 30, 120]), 'concurrency': rng.choice([1, 2, 8]),
                      'return_x': rng.random() < 0.5, 'return_exceptions': rng.random() < 0.7, 'fail_rate': rng.choice([0, 0.1]),
                      'seed': rng.randrange(1 << 30)})
    # (e) the same parmap Stream object iterated again after a first pass that was completed, abandoned or failed
    for i in range(16 if tier == 'quick' else 300):
        cases.append({'kind': 'reiterate', 'executor': ['thread', 'thread', 'async', 'process'][i % 4], 'first': ['break', 'close', 'worker-raises', 'complete'][(i // 4) % 4],
                      'n': rng.choice([6, 25]) if i % 4 != 3 else 8, 'concurrency': rng.choice([1, 2, 4]), 'return_x': rng.random() < 0.5,
                      'return_exceptions': rng.random() < 0.5, 'seed': rng.randrange(1 << 30)})
    # (g) worker keyword arguments named like the feeder's own variables
    for ex in ('thread', 'async', 'astream-thread', 'astream-async'):
        for kwname in ('q', 'to_stop', 'tasks', 'fut', 'xx', 'preprocess'):  # not the documented parameter names (func, instream, executor ...): those collide by Python's own rules
            cases.append({'kind': 'kwnames', 'executor': ex, 'kwname': kwname, 'seed': 0})
    # (f) element values: None / falsy / empty at the first position (and elsewhere), every executor kind
    for ex in ('thread', 'process', 'async'):
        for k in range(10):
            if tier == 'quick' and ex != 'thread' and k not in (0, 1, 2, 3, 5, 6):
                continue
            cases.append({'kind': 'values', 'executor': ex, 'first_value': k, 'n': 10, 'concurrency': 2, 'return_x': k % 2 == 1, 'as_list': k % 3 != 0, 'seed': k})
        cases.append({'kind': 'values', 'executor': ex, 'first_value': 0, 'n': 1, 'concurrency': 2, 'return_x': False, 'as_list': True, 'seed': 0})
        cases.append({'kind': 'values', 'executor': ex, 'first_value': 0, 'n': 4, 'all_same': True, 'concurrency': 1, 'return_x': True, 'as_list': False, 'seed': 1})
    return cases


def _compare(viol, what, out, term, exp_out, exp_term, detail):
    if out != exp_out or term != exp_term:
        k = 0
        while k < min(len(out), len(exp_out)) and out[k] == exp_out[k]:
            k += 1
        viol.append({'mech': f'{what}/wrong-output',
                     'msg': f'outputs differ from [g(x_i)] at position {k}: got {out[k:k + 3]!r} term={term!r}, expected {exp_out[k:k + 3]!r} term={exp_term!r}',
                     'detail': detail})
        return False
    return True


def _exactly_once(viol, what, ledger, items, fail, reject, complete_run, detail):
    for x in items:
        c = ledger.calls.get(x, 0)
        if x in reject:
            if c != 0:
                viol.append({'mech': f'{what}/rejected-element-called', 'msg': f'worker called {c}x for preprocessor-rejected {x!r}', 'detail': detail})
                return
        elif c > 1 or (complete_run and c != 1):
            viol.append({'mech': f'{what}/not-exactly-once', 'msg': f'worker called {c}x for input {x!r}', 'detail': detail})
            return


def run_case(case):
    import mpservice.streamer._streamer as S
    import mpservice._queues as Q

    kind = case['kind']
    viol = []
    stats = {'lane_appends': 0, 'max_lane_len': 0, 'lane_overflow': 0, 'lane_nonfifo': 0}
    obs = {'runs': 0, 'outputs_checked': 0, 'ooo_completions': 0, 'max_gap': 0}
    sigs = []
    fuzz_stats = None
    sample = None
    if case.get('seed', 0) % 2 == 0 or case['kind'] == 'dfs':
        install_lane_monitor(S, stats)  # optional probe; half of the seeded runs go without it so that it can never mask anything

    if kind == 'dfs':
        n, cap = case['n'], case['capacity']
        items = list(range(100, 100 + n))
        fail = {items[case['fail_at']]} if case['plan'] == 'fail' else set()
        reject = {items[case['fail_at']]} if case['plan'] == 'reject' else set()
        preproc = case['plan'] in ('reject', 'subfail+pre')
        errval = {items[case['fail_at']]} if case['plan'] == 'errval' else set()
        subfail = {items[case['fail_at']]} if case['plan'].startswith('subfail') else set()
        exp_out, exp_term = H.expected_outputs(items, fail, reject, case['return_x'], case['return_exceptions'], preproc, errval, subfail)
        prefix = []
        orders = set()
        runs = 0
        while prefix is not None and runs < case['max_runs']:
            ctl = gates.Controller(choices=prefix, settle=0.0015, max_settle=0.03).start()
            ledger = gates.Ledger()
            try:
                out, term, src = watch.run_bounded(
                    lambda: H.run_fifo_direct(S, items, capacity=cap, return_x=case['return_x'], return_exceptions=case['return_exceptions'],
                                              fail=fail, reject=reject, preproc=preproc, errval=errval, subfail=subfail, controller=ctl, ledger=ledger),
                    BOUND, 'fifo_stream run')
            except watch.Hang as h:
                viol.append({'mech': 'fifo_stream/hang', 'msg': f'run did not finish; completion choices {prefix}', 'stacks': h.stacks})
                return {'violations': viol, 'obs': obs, 'exit_after': True}
            finally:
                ctl.stop()
            runs += 1
            order = tuple(ctl.order)
            orders.add(order)
            detail = {'order': order, 'choices': ctl.taken, 'n': n, 'capacity': cap}
            ok = _compare(viol, 'fifo_stream', out, term, exp_out, exp_term, detail)
            _exactly_once(viol, 'fifo_stream', ledger, items, fail, reject, exp_term == ('END',), detail)
            obs['outputs_checked'] += len(out)
            obs['max_gap'] = max(obs['max_gap'], ledger.max_gap)
            if any(order[i] > order[i + 1] for i in range(len(order) - 1)):
                obs['ooo_completions'] += 1
                sigs.append(hash((n, cap, case['return_x'], case['return_exceptions'], case['plan'], case['fail_at'], order)) & 0xFFFFFFFFFFFF)
            if viol:
                break
            prefix = gates.next_prefix(ctl.widths, ctl.taken)
        obs['runs'] = runs
        obs['dfs_trees_completed'] = 1 if prefix is None else 0
        obs['distinct_orders'] = len(orders)
        sample = {'kind': 'dfs', 'n': n, 'capacity': cap, 'plan': case['plan'], 'fail_at': case['fail_at'],
                  'runs': runs, 'distinct_completion_orders': len(orders), 'tree_exhausted': prefix is None,
                  'example_order': list(sorted(orders)[len(orders) // 2]) if orders else []}
    elif kind in ('direct', 'parmap'):
        rng = random.Random(case['seed'])
        n = case['n']
        items = list(range(1000, 1000 + n))
        fail = {x for x in items if rng.random() < case['fail_rate']}
        preproc = kind == 'direct' and case['reject_rate'] > 0
        reject = {x for x in items if preproc and rng.random() < case['reject_rate']}
        fail -= reject
        # results that *are* exception objects (returned, not raised) are ordinary results
        errval = {x for x in items if case['seed'] % 3 == 0 and rng.random() < 0.2} - reject - fail
        subfail = ({x for x in items if rng.random() < 0.05} - reject) if kind == 'direct' and case['seed'] % 4 == 1 else set()
        exp_out, exp_term = H.expected_outputs(items, fail, reject, case['return_x'], case['return_exceptions'], preproc, errval, subfail)
        pr = gates.make_priorities(case['policy'], n, rng)
        ctl = gates.Controller(priorities=pr, settle=0.0005 if n > 60 else 0.0015, max_settle=0.02).start()
        ledger = gates.Ledger()
        pause = (lambda k: 0.002 if k % 7 == 0 else 0) if case['consumer'] == 'slow' else None
        src_pause = None
        if case.get('stall'):
            who, where, dur = case['stall']
            pos = {'first': 0, 'mid': n // 2, 'last': n - 1, 'last2': n - 2, 'after-last': n}[where]
            if who == 'source':
                src_pause = lambda i, pos=pos, dur=dur: dur if i == pos else 0  # noqa: E731
            else:
                pause = lambda k, pos=pos, dur=dur: dur if k == max(1, pos) else 0  # noqa: E731
        fz = schedfuzz.SchedFuzz(seed=case['seed'], p=case.get('fuzz_p', 0.03), changepoints=2) if case['fuzz'] else schedfuzz.NullFuzz()
        fz.add(S.fifo_stream, Q.SingleLane.put, Q.SingleLane.get, S.Parmapper.__iter__)
        if case.get('stall'):
            fz.add_handler_sites(S.fifo_stream, S.Parmapper.__iter__, prob=0.6, delay=0.02)
        try:
            with fz:
                if kind == 'direct':
                    fn = lambda: H.run_fifo_direct(S, items, capacity=case['capacity'], return_x=case['return_x'],  # noqa: E731
                                                   return_exceptions=case['return_exceptions'], fail=fail, reject=reject, errval=errval, subfail=subfail,
                                                   preproc=preproc, controller=ctl, ledger=ledger, consumer_pause=pause, src_pause=src_pause)
                else:
                    fn = lambda: H.run_parmap_thread(S, items, concurrency=case['concurrency'], return_x=case['return_x'],  # noqa: E731
                                                     return_exceptions=case['return_exceptions'], fail=fail, errval=errval, controller=ctl,
                                                     ledger=ledger, consumer_pause=pause, src_pause=src_pause)
                out, term, src = watch.run_bounded(fn, 40, f'{kind} run')
        except watch.Hang as h:
            viol.append({'mech': f'{kind}/hang', 'msg': 'run did not finish', 'stacks': h.stacks})
            return {'violations': viol, 'obs': obs, 'exit_after': True}
        except watch.Inconclusive as e:
            return {'violations': [], 'obs': obs, 'inconclusive': str(e), 'exit_after': True}
        finally:
            ctl.stop()
        what = 'fifo_stream' if kind == 'direct' else 'parmap-thread'
        detail = {'order_head': ctl.order[:30], 'policy': case['policy']}
        _compare(viol, what, out, term, exp_out, exp_term, detail)
        _exactly_once(viol, what, ledger, items, fail, reject, exp_term == ('END',), detail)
        obs['runs'] = 1
        obs['outputs_checked'] = len(out)
        obs['max_gap'] = ledger.max_gap
        order = ctl.order
        ooo = sum(1 for i in range(len(order) - 1) if order[i] > order[i + 1])
        obs['ooo_completions'] = 1 if ooo else 0
        if ooo:
            sigs.append(hash((kind, n, case['capacity'], case['concurrency'], tuple(order))) & 0xFFFFFFFFFFFF)
        fuzz_stats = fz.stats()
        sample = {'kind': kind, 'n': n, 'capacity': case['capacity'], 'concurrency': case['concurrency'], 'policy': case['policy'],
                  'failed': len(fail), 'rejected': len(reject), 'out_of_order_steps': ooo, 'completion_order_head': order[:12],
                  'max_pulled_minus_received': ledger.max_gap}
    elif kind == 'process':
        from vlib import targets

        rng = random.Random(case['seed'])
        n = case['n']
        items = [(i, rng.choice([0, 0.001, 0.005, 0.02]), rng.random() < case['fail_rate']) for i in range(n)]
        exp, exp_term = [], ('END',)
        for x in items:
            y = norm_exc(Boom(x[0])) if x[2] else ('f', x[0], True)
            if x[2] and not case['return_exceptions']:
                exp_term = ('RAISED', y)
                break
            exp.append((x, y) if case['return_x'] else y)
        ledger = gates.Ledger()
        st = S.Stream(gates.CountingSource(items, ledger)).parmap(
            targets.proc_work, executor='process', concurrency=case['concurrency'], return_x=case['return_x'],
            return_exceptions=case['return_exceptions'])
        try:
            out, term = watch.run_bounded(lambda: H.consume(iter(st), ledger), 90, 'process parmap')
        except watch.Hang as h:
            viol.append({'mech': 'parmap-process/hang', 'msg': 'run did not finish', 'stacks': h.stacks})
            return {'violations': viol, 'obs': obs, 'exit_after': True}
        _compare(viol, 'parmap-process', out, term, exp, exp_term, {})
        obs['runs'] = 1
        obs['process_runs'] = 1
        obs['outputs_checked'] = len(out)
        sigs.append(hash(('process', case['seed'])) & 0xFFFFFFFFFFFF)
        sample = {'kind': 'process', 'n': n, 'concurrency': case['concurrency'], 'outputs': len(out)}
    elif kind == 'async':
        from vlib import targets

        rng = random.Random(case['seed'])
        n = case['n']
        items = [(i, rng.choice([0, 0, 0.001, 0.004]), rng.random() < case['fail_rate']) for i in range(n)]
        exp, exp_term = [], ('END',)
        for x in items:
            y = norm_exc(Boom(x[0])) if x[2] else ('f', x[0], True)
            if x[2] and not case['return_exceptions']:
                exp_term = ('RAISED', y)
                break
            exp.append((x, y) if case['return_x'] else y)
        ledger = gates.Ledger()
        st = S.Stream(gates.CountingSource(items, ledger)).parmap(
            targets.async_work, concurrency=case['concurrency'], return_x=case['return_x'],
            return_exceptions=case['return_exceptions'])
        try:
            out, term = watch.run_bounded(lambda: H.consume(iter(st), ledger), 60, 'ParmapperAsync')
        except watch.Hang as h:
            viol.append({'mech': 'parmapper-async/hang', 'msg': 'run did not finish', 'stacks': h.stacks})
            return {'violations': viol, 'obs': obs, 'exit_after': True}
        _compare(viol, 'parmapper-async', out, term, exp, exp_term, {})
        obs['runs'] = 1
        obs['async_runs'] = 1
        obs['outputs_checked'] = len(out)
        sigs.append(hash(('async', case['seed'])) & 0xFFFFFFFFFFFF)
        sample = {'kind': 'async', 'n': n, 'concurrency': case['concurrency'], 'outputs': len(out)}

    elif kind == 'kwnames':
        # keyword arguments for the worker function (passed through parmap's **kwargs) that are named like the feeder's own variables
        import asyncio as _asyncio

        import mpservice.streamer._streamer_async as SA
        from vlib import targets

        kwargs = {case['kwname']: 5}
        items = [1, 2, 3, 4]
        exp = [targets.kw_work(x, **kwargs) for x in items]
        ex = case['executor']

        def run():
            if ex == 'thread':
                return list(S.Stream(items).parmap(targets.kw_work, executor='thread', concurrency=2, **kwargs))
            if ex == 'async':
                return list(S.Stream(items).parmap(targets.kw_work_async, concurrency=2, **kwargs))

            async def amain():
                async def src():
                    for z in items:
                        yield z

                if ex == 'astream-thread':
                    return [z async for z in SA.AsyncStream(src()).parmap(targets.kw_work, executor='thread', concurrency=2, **kwargs)]
                return [z async for z in SA.AsyncStream(src()).parmap(targets.kw_work_async, concurrency=2, **kwargs)]

            return _asyncio.run(amain())

        out, term = [], None
        try:
            out = watch.run_bounded(run, 20, 'parmap with worker kwargs')
        except watch.Hang as h:
            viol.append({'mech': f'parmap-{ex}/hang', 'msg': f'parmap(f, {case["kwname"]}=5) (a keyword argument for f) did not finish', 'stacks': h.stacks})
            return {'violations': viol, 'obs': obs, 'exit_after': True}
        except Exception as e:  # noqa: BLE001
            term = e
        if term is not None or out != exp:
            viol.append({'mech': f'parmap-{ex}/worker-kwarg-collides-with-internal-name', 'msg': f'parmap(f, {case["kwname"]}=5): ' + (f'raised {term!r}' if term is not None else f'got {out!r}') + f'; expected f(x, {case["kwname"]}=5) for every x'})
        obs['runs'] = 1
        obs['kwname_runs'] = 1
        obs['outputs_checked'] = len(out)
        sigs.append(hash(('kwnames', ex, case['kwname'])) & 0xFFFFFFFFFFFF)
        sample = {'kind': 'kwnames', 'executor': ex, 'kwname': case['kwname'], 'outputs': len(out)}
    elif kind == 'values':
        # element VALUES an implementation might take for "nothing": None / falsy / empty, at the first, a middle and the last position
        from vlib import targets

        vals = [None, 0, '', False, 0.0, (), [], 'a', 1, b'']
        k = case['first_value']
        items = [vals[k]] + vals[k + 1:] + vals[:k] if case['n'] > 1 else [vals[k]]
        if case.get('all_same'):
            items = [vals[k]] * 4
        ex = case['executor']
        kw = dict(concurrency=case['concurrency'], return_x=case['return_x'])
        if ex == 'async':
            st = S.Stream(list(items) if case['as_list'] else (z for z in list(items))).parmap(targets.any_work_async, **kw)
        else:
            st = S.Stream(list(items) if case['as_list'] else (z for z in list(items))).parmap(targets.any_work, executor=ex, **kw)
        exp = [((x, targets.any_work(x)) if case['return_x'] else targets.any_work(x)) for x in items]
        ledger = gates.Ledger()
        try:
            out, term = watch.run_bounded(lambda: H.consume(iter(st), ledger), 90, 'parmap over falsy values')
        except watch.Hang as h:
            viol.append({'mech': f'parmap-{ex}/hang', 'msg': f'run over {items!r} did not finish', 'stacks': h.stacks})
            return {'violations': viol, 'obs': obs, 'exit_after': True}
        if norm_exc(out) != norm_exc(exp) or term != ('END',):
            viol.append({'mech': f'parmap-{ex}/wrong-output', 'msg': f'parmap({ex}, return_x={case["return_x"]}) over {items!r}: got {len(out)} outputs {out!r}'[:400] + f' {term!r}, expected {len(exp)}: one per element, in order'})
        obs['runs'] = 1
        obs['value_runs'] = 1
        obs['outputs_checked'] = len(out)
        sigs.append(hash(('values', ex, k, case['return_x'], case.get('all_same'))) & 0xFFFFFFFFFFFF)
        sample = {'kind': 'values', 'executor': ex, 'items': repr(items)[:80], 'outputs': len(out)}
    elif kind == 'reiterate':
        from vlib import targets

        rng = random.Random(case['seed'])
        n = case['n']
        first = case['first']
        rexc = case['return_exceptions'] if first != 'worker-raises' else False
        # element 1 fails in the first pass only when that pass is meant to fail
        state = {'pass': 0}
        items = [(i, rng.choice([0, 0.001, 0.004]), False) for i in range(n)]

        class Src:
            def __iter__(self):
                state['pass'] += 1
                if first == 'worker-raises' and state['pass'] == 1:
                    return iter([x if x[0] != 1 else (x[0], x[1], True) for x in items])
                return iter(items)

        work = {'thread': targets.proc_work, 'process': targets.proc_work, 'async': targets.async_work}[case['executor']]
        kw = {'executor': case['executor']} if case['executor'] != 'async' else {}
        st = S.Stream(Src()).parmap(work, concurrency=case['concurrency'], return_x=case['return_x'], return_exceptions=rexc, **kw)
        exp = [((x, ('f', x[0], True)) if case['return_x'] else ('f', x[0], True)) for x in items]

        def passes():
            it = iter(st)
            got1 = []
            try:
                if first in ('break', 'close'):
                    got1.append(next(it))
                else:
                    got1.extend(it)
            except Exception as e:  # noqa: BLE001
                got1.append(e)
            if first == 'break':
                del it
            else:
                it.close()
            return got1, [list(st), list(st)]

        try:
            got1, later = watch.run_bounded(passes, 90, 're-iteration of a parmap stream')
        except watch.Hang as h:
            viol.append({'mech': 'parmap-reiterate/hang', 'msg': f'{case["executor"]} parmap: iterating the same stream again after a first pass ended by {first} did not finish', 'stacks': h.stacks})
            return {'violations': viol, 'obs': obs, 'exit_after': True}
        for k, out in enumerate(later):
            out = [norm_exc(z) for z in out]
            if out != [norm_exc(z) for z in exp]:
                viol.append({'mech': 'parmap-reiterate/wrong-output', 'msg': f'{case["executor"]} parmap (concurrency {case["concurrency"]}): pass {k + 2} over the same Stream object after a first pass '
                             f'ended by {first} gave {len(out)} outputs {out[:4]!r}...; expected {len(exp)} in input order'})
                break
        obs['runs'] = 3
        obs['reiterate_runs'] = 1
        obs['outputs_checked'] = sum(len(o) for o in later)
        sigs.append(hash(('reiterate', case['executor'], first, case['seed'])) & 0xFFFFFFFFFFFF)
        sample = {'kind': 'reiterate', 'executor': case['executor'], 'first_pass': first, 'n': n, 'first_pass_outputs': len(got1), 'later_pass_outputs': [len(o) for o in later]}

    if stats['lane_overflow']:
        viol.append({'mech': 'singlelane/overflow', 'msg': f'SingleLane held more than maxsize elements ({stats})'})
    if stats['lane_nonfifo']:
        viol.append({'mech': 'singlelane/non-fifo', 'msg': f'SingleLane removed an element that was not the oldest ({stats})'})
    obs['lane_appends'] = stats['lane_appends']
    obs['max_lane_len'] = stats['max_lane_len']
    res = {'violations': viol, 'obs': obs, 'sigs': sigs, 'nontrivial': bool(sigs), 'sample': sample}
    if fuzz_stats:
        res['fuzz'] = fuzz_stats
    return res


def decide_inconclusive(obs, results, cases):
    if obs.get('ooo_completions', 0) == 0:
        return 'no run had an out-of-order completion'
    if obs.get('lane_appends', 0) == 0:
        return None  # aux probe missing is not a verdict
    return None


def summarize(results, cases):
    trees = sum(r.get('obs', {}).get('dfs_trees_completed', 0) for r in results)
    n_dfs = sum(1 for c in cases if c['kind'] == 'dfs')
    return {'dfs_trees': n_dfs, 'dfs_trees_exhausted': trees}


RULE = RULE + '; results that are exception objects; submissions that raise; the same parmap Stream object iterated three times (first pass complete / break / close / worker-raises); element values None / 0 / '' / False / () / [] at the first and other positions through thread, process and async parmappers'
