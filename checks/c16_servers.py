"""C16 part 3: Server.call/stream vs AsyncServer.call/stream on the same servlet and request plan."""
from __future__ import annotations

import asyncio
import random

from vlib import watch
from vlib.targets import Reject, norm_exc


def _pre(reject_ids):
    def preprocessor(x):
        if (x[1], x[2]) in reject_ids:
            raise Reject('pre', (x[1], x[2]))
        return x

    return preprocessor


def _backlog_stream(case, obs):
    """stream() through a server whose single slot is taken for 0.5 s per request, with a 0.15 s stream timeout: the first element is not
    ready by its deadline and the submission of the second fails with ServerBacklogFull, on both sides; what the consumer sees (outputs, then how
    it ends) must be the same."""
    from mpservice.mpserver import AsyncServer, Server, ThreadServlet
    from vlib.srvtargets import TagWorker

    items = [('tok', 0, i, (('A', 'sleep', 0.5),)) for i in range(4)]
    pre = (lambda x: x) if case['preproc'] else None
    skw = dict(return_x=case['return_x'], return_exceptions=case['return_exceptions'], timeout=0.15)

    def shape(out, term):
        def n(z):
            z = norm_exc(z)
            return _strip_wait(z)
        return [n(z) for z in out], n(term)

    def sync_run():
        out, term = [], ('END',)
        with Server(ThreadServlet(TagWorker, tag='A', num_threads=1), capacity=1) as s:
            try:
                for z in s.stream(iter(items), preprocessor=pre, **skw):
                    out.append(z)
            except Exception as e:  # noqa: BLE001
                term = ('RAISED', e)
        return shape(out, term)

    async def async_run():
        out, term = [], ('END',)
        async with AsyncServer(ThreadServlet(TagWorker, tag='A', num_threads=1), capacity=1) as s:
            async def src():
                for x in items:
                    yield x
            try:
                async for z in s.stream(src(), preprocessor=pre, **skw):
                    out.append(z)
            except Exception as e:  # noqa: BLE001
                term = ('RAISED', e)
        return shape(out, term)

    viol = []
    try:
        rs = watch.run_bounded(sync_run, 40, 'Server.stream with failing submission')
        ra = watch.run_bounded(lambda: asyncio.run(async_run()), 40, 'AsyncServer.stream with failing submission')
    except watch.Hang as h:
        viol.append({'mech': 'servers/hang', 'msg': h.what, 'stacks': h.stacks})
        return {'violations': viol, 'obs': obs, 'exit_after': True}
    obs['pairs'] += 1
    obs['server_pairs'] = 1
    obs['submission_failure_pairs'] = 1
    obs['outputs_compared'] += len(rs[0]) + 1
    if rs != ra:
        viol.append({'mech': 'AsyncServer.stream/differs-from-Server.stream/submission-fails', 'msg': f'sync {rs!r}'[:500] + f' vs async {ra!r}'[:500]})
    return {'violations': viol, 'obs': obs, 'sigs': [hash(('backlog-stream', case['preproc'], case['return_x'], case['return_exceptions'])) & 0xFFFFFFFFFFFF], 'nontrivial': True,
            'sample': {'kind': 'servers/backlog-stream', 'preprocessor': case['preproc'], 'return_exceptions': case['return_exceptions'], 'sync': repr(rs)[:200]}}


def _deadline_after_wait(case, obs):
    """capacity 1, service time 0.6 s, timeout 0.65 s counted from reception: a request that first waits ~0.55 s for room cannot be answered
    in time.  Both servers must answer it with TimeoutError (call) / an exception in its place (stream); a VALUE delivered later than
    timeout + 0.5 s after the request was made means the clock was started late."""
    import time

    from mpservice.mpserver import AsyncServer, Server, ThreadServlet
    from vlib.srvtargets import TagWorker

    T, SVC = 0.65, 0.6
    toks = [('tok', 0, i, (('A', 'sleep', SVC),)) for i in range(3)]

    def kind(y):
        return 'value' if isinstance(y, tuple) and y and y[0] == 'A' else type(y).__name__

    def sync_run():
        import threading

        res = {}
        with Server(ThreadServlet(TagWorker, tag='A', num_threads=1), capacity=1) as s:
            def one(i):
                t0 = time.monotonic()
                try:
                    y = s.call(toks[i], timeout=T, backpressure=False)
                except Exception as e:  # noqa: BLE001
                    y = e
                res[i] = (kind(y), time.monotonic() - t0)

            ths = [threading.Thread(target=one, args=(i,)) for i in range(2)]
            ths[0].start()
            time.sleep(0.05)
            ths[1].start()
            for t in ths:
                t.join()
            time.sleep(0.7)
            t0 = time.monotonic()
            st = [(kind(y), time.monotonic() - t0) for y in s.stream(iter(toks), return_exceptions=True, timeout=T)]
        return [res[0], res[1]], st

    async def async_run():
        res = {}
        async with AsyncServer(ThreadServlet(TagWorker, tag='A', num_threads=1), capacity=1) as s:
            async def one(i, delay):
                await asyncio.sleep(delay)
                t0 = time.monotonic()
                try:
                    y = await s.call(toks[i], timeout=T, backpressure=False)
                except Exception as e:  # noqa: BLE001
                    y = e
                res[i] = (kind(y), time.monotonic() - t0)

            await asyncio.gather(one(0, 0), one(1, 0.05))
            await asyncio.sleep(0.7)

            async def src():
                for x in toks:
                    yield x

            t0 = time.monotonic()
            st = []
            async for y in s.stream(src(), return_exceptions=True, timeout=T):
                st.append((kind(y), time.monotonic() - t0))
        return [res[0], res[1]], st

    viol = []
    try:
        rs = watch.run_bounded(sync_run, 40, 'Server deadline-after-wait')
        ra = watch.run_bounded(lambda: asyncio.run(async_run()), 40, 'AsyncServer deadline-after-wait')
    except watch.Hang as h:
        viol.append({'mech': 'servers/hang', 'msg': h.what, 'stacks': h.stacks})
        return {'violations': viol, 'obs': obs, 'exit_after': True}
    obs['pairs'] += 1
    obs['server_pairs'] = 1
    obs['deadline_after_wait_pairs'] = 1
    obs['outputs_compared'] += 5
    for name, (calls, st) in (('Server', rs), ('AsyncServer', ra)):
        for what, lst in (('call', calls), ('stream element', st)):
            for i, (k, el) in enumerate(lst):
                if k == 'value' and what == 'call' and el > T + 0.5:
                    viol.append({'mech': f'{name}/deadline-not-counted-from-reception', 'msg': f'{name}.call #{i} with timeout {T}s returned a value {el:.2f}s after it was made (it waited for room first; service time {SVC}s): '
                                 f'the time limit includes the wait for room'})
    # the two servers agree on which requests were answered in time (decided only when the first, unobstructed request was in time on both sides)
    if not viol and rs[0][0][0] == 'value' and ra[0][0][0] == 'value' and rs[1][0][0] == 'value' and ra[1][0][0] == 'value':
        ks, ka = [k for k, _ in rs[0]] + [k for k, _ in rs[1]], [k for k, _ in ra[0]] + [k for k, _ in ra[1]]
        if ks != ka:
            viol.append({'mech': 'AsyncServer/differs-from-Server/deadline-after-wait', 'msg': f'capacity 1, service {SVC}s, timeout {T}s: Server gave {rs!r}, AsyncServer gave {ra!r}'[:700]})
    return {'violations': viol, 'obs': obs, 'sigs': [hash(('deadline-after-wait',)) & 0xFFFFFFFFFFFF], 'nontrivial': True,
            'sample': {'kind': 'servers/deadline-after-wait', 'sync': repr(rs)[:200], 'async': repr(ra)[:200]}}


def _strip_wait(z):
    # ServerBacklogFull(n, seconds waited): the wait is a measurement
    if isinstance(z, tuple) and len(z) == 3 and z[0] == 'EXC' and z[1] == 'ServerBacklogFull':
        return ('EXC', 'ServerBacklogFull')
    if isinstance(z, tuple) and len(z) == 3 and z[0] == 'EXC' and z[1] == 'TimeoutError' and z[2] and isinstance(z[2][0], str) and 'seconds total' in z[2][0]:
        return ('EXC', 'TimeoutError')  # the element was not ready by its deadline; the message carries measured seconds
    if isinstance(z, (tuple, list)):
        return type(z)(_strip_wait(a) for a in z)
    return z


def run(case, obs):
    from mpservice.mpserver import AsyncServer, SequentialServlet, Server, ThreadServlet
    from vlib.srvtargets import TagWorker

    if case.get('backlog_stream'):
        return _backlog_stream(case, obs)
    if case.get('deadline_after_wait'):
        return _deadline_after_wait(case, obs)

    rng = random.Random(case['seed'])
    n = case['n']
    items = []
    for i in range(n):
        plan = []
        if case['fail_every'] and i % case['fail_every'] == 1:
            plan.append(('A', 'fail', None))
        if case.get('waiters'):
            plan.append(('A', 'sleep', 0.003))
        elif rng.random() < 0.3:
            plan.append(('A', 'sleep', rng.choice([0.0005, 0.002, 0.006])))
        items.append(('tok', 0, i, tuple(plan)))
    reject_ids = {(0, i) for i in range(n) if case['reject_every'] and i % case['reject_every'] == 0}
    pre = _pre(reject_ids) if reject_ids else None

    def servlet():
        return SequentialServlet(ThreadServlet(TagWorker, tag='A', num_threads=case['threads']),
                                 ThreadServlet(TagWorker, tag='B', num_threads=1))

    skw = dict(return_x=case['return_x'], return_exceptions=case['return_exceptions'])
    ncon = (6 if n else 0) if not case.get('waiters') else 12

    sessions = case.get('sessions', 1)

    def sync_run():
        # the same server object is entered `sessions` times
        srv = Server(servlet(), capacity=case['capacity'])
        res = [sync_session(srv) for _ in range(sessions)]
        return res[0] if sessions == 1 else tuple(zip(*res))

    def sync_session(srv):
        calls = []
        with srv as s:
            for x in items[:10]:
                try:
                    calls.append(norm_exc(s.call(x, timeout=20)))
                except Exception as e:  # noqa: BLE001
                    calls.append(norm_exc(e))
            out, term = [], ('END',)
            try:
                for z in s.stream(iter(items), preprocessor=pre, **skw):
                    out.append(norm_exc(z))
            except Exception as e:  # noqa: BLE001
                term = ('RAISED', norm_exc(e))
            # several callers waiting for room at the same time (no backpressure): everybody must be served
            conc = {}

            def one(i):
                try:
                    conc[i] = norm_exc(s.call(items[i % len(items)], timeout=8, backpressure=False))
                except Exception as e:  # noqa: BLE001
                    conc[i] = ('EXC', type(e).__name__)

            import threading

            ths = [threading.Thread(target=one, args=(i,)) for i in range(ncon)]
            for t in ths:
                t.start()
            for t in ths:
                t.join()
        return calls, out, term, [conc[i] for i in range(ncon)]

    def async_run():
        # ... each time under a new event loop, the way a program calls asyncio.run() per batch of work
        srv = AsyncServer(servlet(), capacity=case['capacity'])
        res = [asyncio.run(async_session(srv)) for _ in range(sessions)]
        return res[0] if sessions == 1 else tuple(zip(*res))

    async def async_session(srv):
        calls = []
        async with srv as s:
            for x in items[:10]:
                try:
                    calls.append(norm_exc(await s.call(x, timeout=20)))
                except Exception as e:  # noqa: BLE001
                    calls.append(norm_exc(e))

            async def src():
                for x in items:
                    yield x

            out, term = [], ('END',)
            try:
                async for z in s.stream(src(), preprocessor=pre, **skw):
                    out.append(norm_exc(z))
            except Exception as e:  # noqa: BLE001
                term = ('RAISED', norm_exc(e))
            conc = {}

            async def one(i):
                try:
                    conc[i] = norm_exc(await s.call(items[i % len(items)], timeout=8, backpressure=False))
                except Exception as e:  # noqa: BLE001
                    conc[i] = ('EXC', type(e).__name__)

            await asyncio.gather(*[one(i) for i in range(ncon)])
        return calls, out, term, [conc[i] for i in range(ncon)]

    viol = []
    try:
        rs = watch.run_bounded(sync_run, 40, 'Server run')
        try:
            ra = watch.run_bounded(async_run, 40, 'AsyncServer run')
        except (watch.Hang, watch.Inconclusive):
            raise
        except Exception as e:  # noqa: BLE001
            viol.append({'mech': 'AsyncServer/differs-from-Server' + ('/re-entered' if sessions > 1 else ''),
                         'msg': f'the AsyncServer run raised {e!r}; the same plan through Server gave {rs!r}'[:700]})
            return {'violations': viol, 'obs': obs, 'exit_after': True}
    except watch.Hang as h:
        viol.append({'mech': 'servers/hang', 'msg': h.what, 'stacks': h.stacks})
        return {'violations': viol, 'obs': obs, 'exit_after': True}
    obs['pairs'] += 1
    obs['server_pairs'] = 1
    if sessions > 1:
        obs['server_reentered_pairs'] = 1
        flat = lambda r: ([z for part in r[0] for z in part], [z for part in r[1] for z in part], r[2], [z for part in r[3] for z in part])  # noqa: E731
        rs, ra = flat(rs), flat(ra)
    obs['outputs_compared'] += len(rs[0]) + len(rs[1]) + len(rs[3])
    obs['concurrent_waiters'] = obs.get('concurrent_waiters', 0) + len(rs[3])
    if reject_ids:
        obs['pairs_with_rejection'] += 1
    if rs != ra:
        mech = 'AsyncServer/differs-from-Server' + ('/re-entered' if sessions > 1 else '')
        if reject_ids and rs[0] == ra[0]:
            mech = 'AsyncServer.stream/rejected-element-wrong-outcome'
        viol.append({'mech': mech, 'msg': f'sync {rs!r}'[:600] + f' vs async {ra!r}'[:600]})
    sample = {'kind': 'servers', 'n': n, 'capacity': case['capacity'], 'rejected': len(reject_ids), 'calls': len(rs[0]),
              'stream_outputs': len(rs[1]), 'term': repr(rs[2])[:100]}
    return {'violations': viol, 'obs': obs, 'sigs': [hash(('servers', case['seed'], sessions)) & 0xFFFFFFFFFFFF], 'nontrivial': True, 'sample': sample}
