"""C05 — streams end cleanly on early stop or failure: no hang, no leak, first failure once."""
from __future__ import annotations

import asyncio
import gc
import itertools
import random
import threading
import time

from vlib import schedfuzz, watch
from vlib.targets import Boom, CancelLike, Reject, norm_exc

PROPERTY = 'C05'
LEVEL = 'fault_enumeration'
RULE = ('enumeration of pipeline shape {buffer, parmap thread/process/async-func, buffer>parmap, parmap>buffer, fifo_stream+preprocessor, '
        'AsyncStream.buffer/parmap, SyncIter, AsyncIter, IterableQueue source} x size {1,2,3} x stop kind {exhaust, break, close, del+gc} x stop '
        'position x failure site {none, source, map, parmap func, preprocessor} x failure kind {Exception, StopRequested} x failure position, '
        'each run under the schedule fuzzer in the thorough tier and for a seeded half in the quick tier; non-trivial = the case has an early '
        'stop or a failure; distinct = distinct case tuples; adapters around pipelines that own threads (synciter(abuffer), synciter(aparmap), asynciter(buffer)); consumer/source stalls of about a polling interval (0.1 s, 1 s) before the stop or the failure')
ASSUMPTIONS = ['"bounded time" = 10 s (>= 200x the typical duration) AND three identical stack samples 1 s apart (DESIGN 3.1)',
               'leak census polls up to 5 s; stdlib QueueFeederThread daemons are reported but are not a leak verdict']
CASE_TIMEOUT = 90
PARALLEL = 15
BOUND = 10
L = 6
EXHAUSTIVE = {'quick': False, 'thorough': True}

SHAPES = ['buffer', 'parmap-thread', 'buffer>parmap', 'parmap>buffer', 'fifo-pre', 'abuffer', 'aparmap', 'aparmap-async',
          'synciter', 'asynciter', 'synciter(abuffer)', 'synciter(aparmap)', 'asynciter(buffer)']


def gen_cases(tier, seed):
    rng = random.Random(seed)
    cases = []
    stops = [('exhaust', None)] + [(k, p) for k in ('break', 'close', 'gc') for p in (0, 1, 3, 5)]
    for shape in SHAPES:
        fails = [('none', None, None)]
        for p in (0, 1, 2, 4):
            fails.append(('source', p, 'Boom'))
            fails.append(('source', p, 'StopRequested'))
            if p in (0, 2):
                fails.append(('source', p, 'CancelLike'))  # a failure class outside the Exception hierarchy (framework cancellation, SystemExit ...)
        if shape not in ('buffer', 'abuffer', 'synciter', 'asynciter', 'synciter(abuffer)', 'asynciter(buffer)'):
            fails += [('func', p, 'Boom') for p in (0, 2, 4)]
            fails += [('func2', 1, 'Boom')]  # two failing elements: the first in stream order must win
        else:
            fails += [('map', p, 'Boom') for p in (0, 2, 4)]
        if shape == 'fifo-pre':
            fails += [('pre', p, 'Reject') for p in (0, 3)]
        for size in (1, 2, 3):
            for stop in stops:
                for fail in fails:
                    if stop[0] == 'gc' and shape in ('abuffer', 'aparmap', 'aparmap-async', 'asynciter', 'asynciter(buffer)'):
                        continue
                    cases.append({'shape': shape, 'size': size, 'stop': stop, 'fail': fail, 'n': L,
                                  'fuzz_seed': rng.randrange(1 << 30)})
    # full cross product of stop position x source-failure position for the producer/consumer hand-offs: which element the
    # producer holds when the consumer stops, and what its next fetch does, is exactly what the clean-up protocols depend on
    for shape in ('fifo-pre', 'buffer', 'parmap-thread', 'abuffer', 'aparmap'):
        for size in (1, 2, 3):
            for kind in ('break', 'close'):
                for spos in range(0, L):
                    for fpos in range(spos, L + 1):
                        for fk in ('Boom', 'StopRequested'):
                            for rep in range(2):
                                cases.append({'shape': shape, 'size': size, 'stop': (kind, spos), 'fail': ('source', fpos, fk), 'n': L,
                                              'fuzz_seed': rng.randrange(1 << 30), 'xprod': True})
    # short sources
    for shape in SHAPES:
        for n in (0, 1, 2):
            for size in (1, 2):
                for stop in [('exhaust', None), ('break', 0), ('close', 1)]:
                    cases.append({'shape': shape, 'size': size, 'stop': stop, 'fail': ('none', None, None), 'n': n,
                                  'fuzz_seed': rng.randrange(1 << 30)})
    extra = []
    # slow shapes, sampled: async-func parmap in a sync stream (its helper thread polls once a second), process pool, IterableQueue source
    slow = []
    must = []
    for size in (1, 2):
        for stop in [('exhaust', None), ('break', 1), ('close', 3)]:
            for fail in [('none', None, None), ('source', 2, 'Boom'), ('source', 4, 'StopRequested'), ('func', 2, 'Boom'), ('actx', 0, 'Boom')]:
                if fail[0] == 'actx':
                    must.append({'shape': 'parmap-asyncfunc', 'size': size, 'stop': stop, 'fail': fail, 'n': L, 'fuzz_seed': rng.randrange(1 << 30)})
                    continue
                slow.append({'shape': 'parmap-asyncfunc', 'size': size, 'stop': stop, 'fail': fail, 'n': L, 'fuzz_seed': rng.randrange(1 << 30)})
                slow.append({'shape': 'parmap-process', 'size': size, 'stop': stop, 'fail': fail, 'n': L, 'fuzz_seed': rng.randrange(1 << 30)})
    for size in (1, 2, 3):
        for shape in ('buffer', 'parmap-thread', 'abuffer'):
            for stop in [('exhaust', None), ('break', 1)]:
                slow.append({'shape': shape, 'size': size, 'stop': stop, 'fail': ('iterq-stop', 3, 'StopRequested'), 'n': L,
                             'fuzz_seed': rng.randrange(1 << 30)})
    if tier == 'quick':
        rng.shuffle(slow)
        slow = slow[:30] + must[:3]
        # the quick tier runs every enumerated case once; half of them under the fuzzer
        for c in cases:
            c['fuzz'] = rng.random() < 0.5
    else:
        base = cases
        cases = []
        for rep in range(6):
            for c in base:
                c2 = dict(c, fuzz=rep > 0, fuzz_seed=rng.randrange(1 << 30))
                cases.append(c2)
        slow = slow + must
        for c in slow:
            c['fuzz'] = False
    for c in slow:
        c.setdefault('fuzz', False)
    cases += slow
    # stalls of about a polling interval (0.1 s / 1 s) of the consumer before it stops, or of the source before it fails / ends
    st = []
    for i in range(60 if tier == 'quick' else 900):
        shape = rng.choice(['buffer', 'parmap-thread', 'buffer>parmap', 'parmap>buffer', 'fifo-pre', 'abuffer', 'aparmap', 'synciter'])
        fail = rng.choice([('none', None, None), ('source', 4, 'Boom'), ('source', 2, 'StopRequested'), ('source', 6, 'Boom')])
        if shape not in ('buffer', 'abuffer', 'synciter') and rng.random() < 0.3:
            fail = ('func', 2, 'Boom')
        st.append({'shape': shape, 'size': rng.choice([1, 2, 3]), 'stop': rng.choice([('exhaust', None), ('break', 1), ('close', 3), ('break', 5)]), 'fail': fail, 'n': L,
                   'stall': [rng.choice(['consumer', 'source']), rng.randrange(0, L + 1), round(rng.choice([rng.uniform(0.09, 0.25), rng.uniform(0.09, 0.25), rng.uniform(1.0, 1.06)]), 4)],
                   'fuzz': True, 'fuzz_seed': rng.randrange(1 << 30)})
    cases += st
    rng.shuffle(cases)
    return cases


def f1(x):
    return ('m', x)


def make_source(S, case, stats):
    n = case['n']
    site, p, kind = case['fail']
    items = list(range(n))
    if site == 'iterq-stop':
        import queue

        from mpservice.queue import IterableQueue

        ev = threading.Event()
        q = IterableQueue(queue.Queue(), to_stop=ev)
        for x in items[:p]:
            q.put(x)
        ev.set()  # nothing more will come: the blocked get raises StopRequested within its wait interval
        return q, items
    from mpservice._common import StopRequested

    exc = None
    if site == 'source':
        exc = Boom('src', p) if kind == 'Boom' else (CancelLike('src', p) if kind == 'CancelLike' else StopRequested())

    stall = case.get('stall')

    def gen():
        for i, x in enumerate(items):
            if stall and stall[0] == 'source' and i == stall[1]:
                time.sleep(stall[2])
            if site == 'source' and i == p:
                raise exc
            stats['pulled'] += 1
            yield x
        if stall and stall[0] == 'source' and stall[1] >= len(items):
            time.sleep(stall[2])
        if site == 'source' and p >= len(items):
            raise exc

    return gen(), items


def func_for(case):
    site, p, kind = case['fail']

    def work(x):
        if site == 'func' and x == p:
            raise Boom('func', x)
        if site == 'func2' and x in (1, 4):
            if x == 1:
                time.sleep(0.01)  # the later failure completes first
            raise Boom('func', x)
        return ('w', x)

    return work


def afunc_for(case):
    site, p, kind = case['fail']

    async def awork(x, **ctx):
        if site == 'func' and x == p:
            raise Boom('func', x)
        if site == 'func2' and x in (1, 4):
            if x == 1:
                await asyncio.sleep(0.01)
            raise Boom('func', x)
        await asyncio.sleep(0)
        return ('w', x)

    return awork


class Ctx:
    """An async context manager handed to parmap(async_context=...); may fail to enter."""

    def __init__(self, fail):
        self.fail = fail
        self.entered = self.exited = 0

    async def __aenter__(self):
        if self.fail:
            raise Boom('actx', 0)
        self.entered += 1
        return self

    async def __aexit__(self, *a):
        self.exited += 1
        return False


def proc_func(x, *, site, p):
    if site == 'func' and x == p:
        raise Boom('func', x)
    if site == 'func2' and x in (1, 4):
        raise Boom('func', x)
    return ('w', x)


def mapf_for(case):
    site, p, kind = case['fail']

    def m(x):
        if site == 'map' and x == p:
            raise Boom('map', x)
        return x

    return m


def expected(case, items):
    """(outputs, terminal) of full consumption under the sequential meaning."""
    site, p, kind = case['fail']
    shape = case['shape']
    out = []
    wrap = (lambda x: ('w', x)) if shape not in ('buffer', 'abuffer', 'synciter', 'asynciter', 'synciter(abuffer)', 'asynciter(buffer)') else (lambda x: x)
    if shape == 'fifo-pre':
        wrap = lambda x: ('w', ('p', x))  # noqa: E731
    if site == 'actx':
        return out, ('RAISED', norm_exc(Boom('actx', 0)))
    for i, x in enumerate(items):
        if site in ('source', 'iterq-stop') and i == p:
            return out, ('RAISED', 'StopRequested' if kind == 'StopRequested' else norm_exc(CancelLike('src', p) if kind == 'CancelLike' else Boom('src', p)))
        if site == 'map' and x == p:
            return out, ('RAISED', norm_exc(Boom('map', x)))
        if site == 'func' and x == p:
            return out, ('RAISED', norm_exc(Boom('func', x)))
        if site == 'func2' and x == 1:
            return out, ('RAISED', norm_exc(Boom('func', 1)))
        if site == 'pre' and x == p:
            return out, ('RAISED', norm_exc(Reject(x)))
        out.append(wrap(x))
    if site in ('source', 'iterq-stop') and p >= len(items):
        return out, ('RAISED', 'StopRequested' if kind == 'StopRequested' else norm_exc(CancelLike('src', p) if kind == 'CancelLike' else Boom('src', p)))
    return out, ('END',)


def _norm_term(e):
    from mpservice._common import StopRequested

    if isinstance(e, StopRequested):
        return ('RAISED', 'StopRequested')
    return ('RAISED', norm_exc(e))


STALL = {'at': None, 'dur': 0.0}  # consumer stall of the current case: after `at` outputs sleep `dur` seconds


def drive_sync(it, stop):
    """Consume per the stop plan. Returns (outputs, terminal, raised_count, after)."""
    kind, pos = stop
    out = []
    term = ('END',)
    raised = 0
    try:
        if kind != 'exhaust' and pos == 0:
            term = ('STOPPED',)
        else:
            for z in it:
                out.append(norm_exc(z))
                if STALL['at'] is not None and len(out) == STALL['at']:
                    time.sleep(STALL['dur'])
                if kind != 'exhaust' and len(out) >= pos:
                    term = ('STOPPED',)
                    break
    except BaseException as e:  # noqa: BLE001  (StopRequested is a BaseException)
        term = _norm_term(e)
        raised += 1
    after = None
    if term[0] == 'RAISED':
        # the failure must be delivered once: the iterator is finished now
        try:
            z = next(it)
            after = ('YIELDED', repr(z)[:80])
        except StopIteration:
            after = 'stopiteration'
        except BaseException as e:  # noqa: BLE001
            after = _norm_term(e)
            raised += 1
    if kind == 'gc':
        del it
        gc.collect()
    else:
        close = getattr(it, 'close', None)
        if close:
            close()
    return out, term, raised, after


async def drive_async(ait, stop):
    kind, pos = stop
    out = []
    term = ('END',)
    raised = 0
    try:
        if kind != 'exhaust' and pos == 0:
            term = ('STOPPED',)
        else:
            async for z in ait:
                out.append(norm_exc(z))
                if STALL['at'] is not None and len(out) == STALL['at']:
                    await asyncio.sleep(STALL['dur'])
                if kind != 'exhaust' and len(out) >= pos:
                    term = ('STOPPED',)
                    break
    except BaseException as e:  # noqa: BLE001
        term = _norm_term(e)
        raised += 1
    after = None
    if term[0] == 'RAISED':
        try:
            z = await ait.__anext__()
            after = ('YIELDED', repr(z)[:80])
        except StopAsyncIteration:
            after = 'stopiteration'
        except BaseException as e:  # noqa: BLE001
            after = _norm_term(e)
            raised += 1
    if kind == 'close':
        aclose = getattr(ait, 'aclose', None)
        if aclose:
            await aclose()
    # kind == 'break': the async generator is finalised by the loop (shutdown_asyncgens) when asyncio.run ends
    return out, term, raised, after


def run_case(case):
    import mpservice.streamer._streamer as S
    import mpservice.streamer._streamer_async as SA
    import mpservice._queues as Q

    shape, size = case['shape'], case['size']
    stats = {'pulled': 0}
    viol = []
    before = watch.census()
    src, items = make_source(S, case, stats)
    site, p, kind = case['fail']

    async def asrc():
        for x in src:
            yield x

    def build_sync():
        st = S.Stream(src)
        if shape == 'buffer':
            if case.get('fuzz_seed', 0) % 3 == 0:
                # the class used directly with its optional external stop event (never set here): everything else must be unchanged
                import threading

                return iter(S.Buffer(st.map(mapf_for(case)), size, to_stop=threading.Event()))
            return iter(st.map(mapf_for(case)).buffer(size))
        if shape == 'parmap-thread':
            return iter(st.parmap(func_for(case), executor='thread', concurrency=size))
        if shape == 'parmap-process':
            return iter(st.parmap(proc_func, executor='process', concurrency=size, site=site, p=p))
        if shape == 'parmap-asyncfunc':
            if site == 'actx' or case.get('fuzz_seed', 0) % 2:
                # with async context managers (entered in the helper thread's loop); one of them may fail to enter
                ctxs = {'c1': Ctx(False), 'c2': Ctx(site == 'actx')}
                stats['ctxs'] = ctxs
                return iter(st.parmap(afunc_for(case), concurrency=size, async_context=ctxs))
            return iter(st.parmap(afunc_for(case), concurrency=size))
        if shape == 'buffer>parmap':
            return iter(st.buffer(size).parmap(func_for(case), executor='thread', concurrency=size))
        if shape == 'parmap>buffer':
            return iter(st.parmap(func_for(case), executor='thread', concurrency=size).buffer(size))
        if shape == 'fifo-pre':
            import concurrent.futures

            pool = concurrent.futures.ThreadPoolExecutor(2, thread_name_prefix='vf-pool')
            w = func_for(case)

            def func(xx, **kw):
                return pool.submit(lambda: ('w', xx) if w(xx[1]) else None)

            def pre(x):
                if site == 'pre' and x == p:
                    raise Reject(x)
                return ('p', x)

            it = S.fifo_stream(src, func, capacity=size, preprocessor=pre)
            stats['pool'] = pool
            return it
        if shape == 'synciter(abuffer)':
            # the async -> sync adapter around an async pipeline that owns a thread
            return iter(SA.SyncIter(SA.AsyncStream(asrc()).map(mapf_for(case)).buffer(size)))
        if shape == 'synciter(aparmap)':
            return iter(SA.SyncIter(SA.AsyncStream(asrc()).parmap(func_for(case), executor='thread', concurrency=size)))
        if shape == 'synciter':
            async def amapped():
                m = mapf_for(case)
                for x in src:
                    yield m(x)

            return iter(SA.SyncIter(amapped()))
        raise ValueError(shape)

    def build_async():
        if shape == 'abuffer':
            return SA.AsyncStream(asrc()).map(mapf_for(case)).buffer(size).__aiter__()
        if shape == 'aparmap':
            return SA.AsyncStream(asrc()).parmap(func_for(case), executor='thread', concurrency=size).__aiter__()
        if shape == 'aparmap-async':
            return SA.AsyncStream(asrc()).parmap(afunc_for(case), concurrency=size).__aiter__()
        if shape == 'asynciter':
            m = mapf_for(case)
            return SA.AsyncIter(m(x) for x in src).__aiter__()
        if shape == 'asynciter(buffer)':
            # the sync -> async adapter around a sync pipeline that owns a thread
            return SA.AsyncIter(S.Stream(src).map(mapf_for(case)).buffer(size)).__aiter__()
        raise ValueError(shape)

    is_async = shape in ('abuffer', 'aparmap', 'aparmap-async', 'asynciter', 'asynciter(buffer)')
    STALL['at'], STALL['dur'] = None, 0.0
    if case.get('stall') and case['stall'][0] == 'consumer':
        STALL['at'], STALL['dur'] = max(1, case['stall'][1]), case['stall'][2]
    fz = schedfuzz.SchedFuzz(seed=case['fuzz_seed'], p=0.04, changepoints=1, changepoint_delay=0.01) if case.get('fuzz') else schedfuzz.NullFuzz()
    fz.add(S.Buffer, S.fifo_stream, Q.SingleLane.put, Q.SingleLane.get, SA.SyncIter, SA.AsyncBuffer)
    if case.get('stall') and not is_async:
        fz.add_handler_sites(S.Buffer, S.fifo_stream, SA.SyncIter, prob=0.5, delay=0.01)

    def body():
        if is_async:
            async def main():
                return await drive_async(build_async(), case['stop'])

            return asyncio.run(main())
        r = drive_sync(build_sync(), case['stop'])
        # "... has exited WHEN the iterator is closed": a census at this very instant, before any garbage collection of ours could
        # finish off an executor that was merely dropped (sync shapes: the library joins its helpers before close returns)
        stats['instant'] = watch.census()
        return r

    obs = {'cases': 1, 'early_stop_cases': 0, 'failure_cases': 0, 'failure_reached_consumer': 0, 'census_checks': 0}
    try:
        with fz:
            out, term, raised, after = watch.run_bounded(body, BOUND if shape not in ('parmap-process',) else 60, f'{shape} consume+close')
    except watch.Hang as h:
        where = 'stop' if case['stop'][0] != 'exhaust' else 'exhaust'
        fk = 'nofail' if site == 'none' else f'{site}-{kind}'
        viol.append({'mech': f'{shape}/hang/{where}/{fk}', 'msg': f'consume/close did not return within {BOUND}s, stacks stable', 'stacks': h.stacks})
        return {'violations': viol, 'obs': obs, 'exit_after': True, 'sig': repr(sorted(case.items())), 'nontrivial': True}
    except watch.Inconclusive as e:
        return {'violations': [], 'obs': obs, 'inconclusive': str(e), 'exit_after': True}
    finally:
        pool = stats.get('pool')
        if pool:
            pool.shutdown(wait=True)

    exp_out, exp_term = expected(case, items)
    skind, spos = case['stop']
    if skind != 'exhaust':
        obs['early_stop_cases'] = 1
    if site != 'none':
        obs['failure_cases'] = 1
    # what the consumer must have seen
    if skind == 'exhaust' or spos > len(exp_out):
        want_out, want_term = exp_out, exp_term
    else:
        want_out, want_term = exp_out[:spos], ('STOPPED',)
    fk = 'nofail' if site == 'none' else f'{site}-{kind}'
    if out != want_out:
        viol.append({'mech': f'{shape}/wrong-prefix/{fk}', 'msg': f'outputs {out!r} != reference prefix {want_out!r}'})
    elif term != want_term:
        viol.append({'mech': f'{shape}/wrong-termination/{fk}', 'msg': f'terminal {term!r}, expected {want_term!r} after outputs {out!r}'})
    if term[0] == 'RAISED':
        obs['failure_reached_consumer'] = 1
        if raised != 1 or after != 'stopiteration':
            viol.append({'mech': f'{shape}/failure-not-exactly-once/{fk}', 'msg': f'failure raised {raised} times; next() after the failure gave {after!r}'})
    inst = stats.get('instant')
    if inst is not None and shape in ('parmap-thread', 'parmap-process', 'buffer', 'buffer>parmap', 'parmap>buffer'):
        bpids = {p for p, _ in before['children']}
        kids = [c for c in inst['children'] if c[0] not in bpids]
        bt = list(before['threads'])
        thr = []
        for th in inst['threads']:
            if th in bt:
                bt.remove(th)
            elif not th[0].startswith(('QueueFeederThread', 'case-body', 'vf-', 'asyncio_')):
                thr.append(th)
        obs['instant_census_checks'] = 1
        if kids or thr:
            viol.append({'mech': f'{shape}/alive-at-close/{fk}', 'msg': f'alive at the instant close() returned: processes {kids!r} threads {thr!r}'[:500]})
    extra, info = watch.leak_check(before, wait=5.0, ignore_thread=lambda name, daemon, cls: name.startswith('asyncio_') and daemon)
    obs['census_checks'] = 1
    if extra:
        viol.append({'mech': f'{shape}/leak/{fk}', 'msg': f'still alive after close: {extra!r}'})
    res = {'violations': viol, 'obs': obs, 'sig': repr((shape, size, case['stop'], case['fail'], case['n'])),
           'nontrivial': skind != 'exhaust' or site != 'none',
           'sample': {'shape': shape, 'size': size, 'stop': case['stop'], 'fail': case['fail'], 'n': case['n'], 'outputs': out, 'terminal': term,
                      'source_pulled': stats['pulled']}}
    if case.get('fuzz'):
        res['fuzz'] = fz.stats()
    if viol:
        res['exit_after'] = True
    return res


def decide_inconclusive(obs, results, cases):
    if obs.get('failure_reached_consumer', 0) == 0 or obs.get('early_stop_cases', 0) == 0:
        return 'no case delivered a failure to the consumer / stopped early'
    return None


RULE = RULE + '; failure site actx (async context manager of parmap(async func) fails to enter); Buffer constructed directly with an external stop event; stop x source-failure cross product'
