"""C07 — an abandoned request (timeout, dropped stream) never harms the server."""
from __future__ import annotations

import asyncio
import random
import threading
import time

from vlib import schedfuzz, srvharness as SH, srvtargets as ST, watch

PROPERTY = 'C07'
LEVEL = 'exploration'
RULE = ('server lifetimes in which "victim" callers abandon requests -- call() deadlines swept in 20 steps across the service time so that expiry and '
        'arrival coincide; Server.stream closed early at every position of a short stream with 1-4 requests pending; cancelled asyncio tasks -- while '
        '"witness" callers issue long-deadline requests; targeted delay injection between the gather thread\'s cancelled() test and its '
        'set_result/set_exception, around the caller\'s cancel(), and in fifo_stream\'s cancel loop. Oracle: every witness request and a final '
        'request are answered correctly, gather thread alive, no helper thread died, __exit__ returns normally. non-trivial = lifetime with >=1 '
        'abandonment whose result reached the gather thread after the cancellation and >=1 before; distinct = distinct (scenario, mode, workers, seed); capacities 1-64; thread and process servlets')
ASSUMPTIONS = ['witness requests use a 30 s deadline; a TimeoutError on one of them is a lost response',
               'abandonment timing relative to the gather thread is classified from the timestamps the server itself records (t_cancelled, t2); evidence only']
CASE_TIMEOUT = 200
PARALLEL = 14
GROUP = 1
BOUND = 90
SERVICE = 0.004


def gen_cases(tier, seed):
    rng = random.Random(seed)
    cases = []
    n = 80 if tier == 'quick' else 1600
    for i in range(n):
        r = random.Random(rng.randrange(1 << 30))
        cases.append({'scenario': ['deadline-sweep', 'deadline-sweep', 'stream-close'][i % 3], 'mode': 'async' if i % 4 == 1 else 'sync',
                      'workers': r.choice([1, 2, 3]), 'victims': r.choice([1, 2, 4]), 'witnesses': r.choice([1, 2]), 'rounds': 3 if tier == 'quick' else 4,
                      'capacity': r.choice([1, 1, 2, 4, 16, 64]), 'batch': r.choice([0, 0, 3]), 'seed': r.randrange(1 << 30)})
    # the same through process workers (onboarding thread, pipes, pickling) -- fewer, they cost a process start each
    for i in range(8 if tier == 'quick' else 160):
        r = random.Random(rng.randrange(1 << 30))
        cases.append({'scenario': ['deadline-sweep', 'stream-close'][i % 2], 'mode': 'async' if i % 4 == 3 else 'sync', 'workers': r.choice([1, 2]), 'victims': r.choice([1, 2]),
                      'witnesses': 1, 'rounds': 2, 'capacity': r.choice([1, 2, 8]), 'batch': 0, 'process': True, 'seed': r.randrange(1 << 30)})
    # ... and with inputs far larger than the pipe holds, so that callers give up while their input still waits in front of the pipe
    for i in range(6 if tier == 'quick' else 60):
        r = random.Random(rng.randrange(1 << 30))
        cases.append({'scenario': ['deadline-sweep', 'stream-close'][i % 2], 'mode': 'async' if i % 3 != 2 else 'sync', 'workers': 1, 'victims': r.choice([2, 4]),
                      'witnesses': 1, 'rounds': 1, 'capacity': r.choice([8, 16]), 'batch': 0, 'process': True, 'pad': r.choice([100_000, 300_000]), 'seed': r.randrange(1 << 30)})
    # many requests abandoned at once and the server shut down (or used again) while their results are still on the way
    nm = [8, 33, 48, 100, 300]
    for i in range(10 if tier == 'quick' else 80):
        cases.append({'scenario': 'mass-abandon', 'how': ['timeouts', 'stream-close'][i % 2], 'mode': 'async' if (i // 2) % 2 == 0 else 'sync',
                      'n': nm[(i // 4 + i) % len(nm)], 'then': ['exit', 'exit', 'final-call'][i % 3], 'workers': [8, 48][(i // 3) % 2],
                      'seed': rng.randrange(1 << 30)})
    # callers that give up while *waiting for room* (backpressure off, deadline around the service time) next to patient callers,
    # capacity 1-2: a wake-up spent on a waiter that is just timing out must not be lost for the others
    for i in range(12 if tier == 'quick' else 120):
        cases.append({'scenario': 'enqueue-timeouts', 'mode': 'async' if i % 4 == 3 else 'sync', 'capacity': 1 + (i % 3 == 2), 'victims': 3 + i % 3,
                      'site': i % 4 != 1, 'seed': rng.randrange(1 << 30)})
    # the deadline of a stream element (stream's timeout is 'interpreted the same as in call')
    for i in range(8 if tier == 'quick' else 64):
        cases.append({'scenario': 'stream-deadline', 'mode': 'async' if i % 2 else 'sync', 'return_exceptions': i % 4 < 2, 'n': 8,
                      'late': [[0], [0, 3], [2, 3, 6], [5]][(i // 4 + i) % 4], 'seed': rng.randrange(1 << 30)})
    return cases


_PAD = {'pad': None}


def tok(client, s, sleep=SERVICE, fail=False):
    plan = [('A', 'sleep', sleep)]
    if _PAD['pad']:
        plan.append(('_', 'pad', _PAD['pad']))  # big inputs: accepted requests queue up in front of the pipe to the worker processes
    if fail:
        plan.append(('A', 'fail', None))
    return ('tok', client, s, tuple(plan))


def _mass_abandon(case):
    """n requests abandoned together (all deadlines expire / a stream with n requests pending is closed after its first result); the
    `async with` / `with` block is left at once (or after one more long-deadline call), so the abandoned results come out of the pipeline
    while the server is shutting down."""
    from mpservice._common import TimeoutError as MpTimeout
    from mpservice.mpserver import AsyncServer, Server, ThreadServlet

    n, w = case['n'], case['workers']
    svc = 0.5 if w >= n else max(0.02, 0.8 * w / n)  # every result is still on the way when the callers give up after 0.15 s
    viol = []
    obs = {'lifetimes': 1, 'mass_abandon_lifetimes': 1, 'abandoned_calls': 0, 'streams_closed_early': 0, 'pending_at_close': 0, 'witness_requests': 0, 'final_calls': 0}
    servlet = ThreadServlet(ST.TagWorker, tag='A', num_threads=w)
    is_async = case['mode'] == 'async'
    server = (AsyncServer if is_async else Server)(servlet, capacity=max(n, 4))
    dr = watch.DeathRecorder().install()
    mu = threading.Lock()

    def note_final(y):
        obs['final_calls'] += 1
        obs['witness_requests'] += 1
        if y != ('A', tok(999, 0, 0.001)):
            viol.append({'mech': 'abandon/witness-lost' if isinstance(y, (MpTimeout, TimeoutError)) else 'abandon/witness-wrong',
                         'msg': f'the request after {n} abandoned ones got {y!r}'})

    def sync_body():
        if case['how'] == 'timeouts':
            def one(i):
                try:
                    server.call(tok(1, i, svc), timeout=0.15)
                except (MpTimeout, TimeoutError):
                    with mu:
                        obs['abandoned_calls'] += 1
                except Exception as e:  # noqa: BLE001
                    viol.append({'mech': 'abandon/victim-wrong-error', 'msg': f'short-deadline call raised {e!r} instead of TimeoutError'})

            ths = [threading.Thread(target=one, args=(i,), name=f'victim-{i}') for i in range(n)]
            for t in ths:
                t.start()
            for t in ths:
                t.join()
        else:
            it = server.stream(iter([tok(1, 0, 0.001)] + [tok(1, i, svc) for i in range(1, n + 1)]), timeout=30)
            next(it)
            time.sleep(0.1)
            obs['pending_at_close'] += server.backlog
            it.close()
            obs['streams_closed_early'] += 1
        if case['then'] == 'final-call':
            try:
                note_final(server.call(tok(999, 0, 0.001), timeout=30, backpressure=False))
            except Exception as e:  # noqa: BLE001
                note_final(e)

    async def async_body():
        if case['how'] == 'timeouts':
            async def one(i):
                try:
                    await server.call(tok(1, i, svc), timeout=0.15)
                except (MpTimeout, TimeoutError):
                    obs['abandoned_calls'] += 1
                except Exception as e:  # noqa: BLE001
                    viol.append({'mech': 'abandon/victim-wrong-error', 'msg': f'short-deadline call raised {e!r} instead of TimeoutError'})

            await asyncio.gather(*[one(i) for i in range(n)])
        else:
            async def src():
                yield tok(1, 0, 0.001)
                for i in range(1, n + 1):
                    yield tok(1, i, svc)

            it = server.stream(src(), timeout=30)
            await it.__anext__()
            await asyncio.sleep(0.1)
            obs['pending_at_close'] += server.backlog
            await it.aclose()
            obs['streams_closed_early'] += 1
        if case['then'] == 'final-call':
            try:
                note_final(await server.call(tok(999, 0, 0.001), timeout=30, backpressure=False))
            except Exception as e:  # noqa: BLE001
                note_final(e)

    def lifetime():
        try:
            if is_async:
                async def main():
                    async with server:
                        await async_body()
                asyncio.run(main())
            else:
                with server:
                    sync_body()
        except Exception as e:  # noqa: BLE001
            viol.append({'mech': 'abandon/exit-raised', 'msg': f'server context raised {e!r}'})

    try:
        watch.run_bounded(lifetime, BOUND, 'server lifetime')
    except watch.Hang as h:
        viol.append({'mech': 'abandon/hang', 'msg': f'server lifetime (incl. __exit__) did not finish after {n} requests were abandoned together ({case["how"]}); stacks stable',
                     'stacks': h.stacks})
        return {'violations': viol, 'obs': obs, 'exit_after': True}
    except watch.Inconclusive as e:
        return {'violations': viol, 'obs': obs, 'inconclusive': str(e), 'exit_after': True}
    finally:
        dr.uninstall()
    deaths = dr.snapshot()
    if deaths:
        viol.append({'mech': 'abandon/helper-thread-died', 'msg': f'{deaths[0]}'[:700]})
    res = {'violations': viol[:6], 'obs': obs, 'nontrivial': obs['abandoned_calls'] + obs['pending_at_close'] > 0,
           'sig': hash(('mass', case['how'], case['mode'], n, case['then'])) & 0xFFFFFFFFFFFF,
           'sample': {'scenario': 'mass-abandon', 'how': case['how'], 'mode': case['mode'], 'n': n, 'then': case['then'], 'abandoned_calls': obs['abandoned_calls'],
                      'pending_at_close': obs['pending_at_close']}}
    if viol:
        res['exit_after'] = True
    return res


def _enqueue_timeouts(case):
    import threading as _th

    from mpservice._common import TimeoutError as MpTimeout
    from mpservice.mpserver import AsyncServer, Server, ServerBacklogFull, ThreadServlet

    rng = random.Random(case['seed'])
    cap = case['capacity']
    viol = []
    obs = {'lifetimes': 1, 'enqueue_timeout_lifetimes': 1, 'abandoned_calls': 0, 'gave_up_waiting_for_room': 0, 'witness_requests': 0, 'final_calls': 0}
    is_async = case['mode'] == 'async'
    server = (AsyncServer if is_async else Server)(ThreadServlet(ST.TagWorker, tag='A', num_threads=cap), capacity=cap)
    mu = _th.Lock()
    plans = [[rng.uniform(0.003, 0.03) for _ in range(80)] for _ in range(case['victims'])]
    fz = schedfuzz.SchedFuzz(seed=case['seed'], p=0.0) if case['site'] and not is_async else schedfuzz.NullFuzz()
    # a waiter whose timed wait has just expired is slow to get the lock back (it is still listed as a waiter meanwhile): a legal schedule
    fz.add_site(_th.Condition.wait, 'self._acquire_restore(saved_state)', prob=1.0, delay=0.003, where='before', name='condition-wait-timeout-reacquire')

    def note_witness(t, y):
        obs['witness_requests'] += 1
        if y != ('A', t):
            if isinstance(y, ServerBacklogFull) and y.args[0] < cap:
                mech = 'abandon/witness-not-admitted-although-room'
            else:
                mech = 'abandon/witness-lost' if isinstance(y, (MpTimeout, TimeoutError, ServerBacklogFull)) else 'abandon/witness-wrong'
            viol.append({'mech': mech, 'msg': f'patient request {t[:3]} (4 s deadline, capacity {cap}) got {y!r}; it started waiting for room right behind a caller whose patience ran out about when the slot was freed'})

    S = 0.02
    rounds = 36

    def sync_body():
        # rounds: a holder takes the last slot for S seconds; a victim starts waiting for room with a deadline that expires
        # within a few ms of the holder's completion (swept); a patient caller starts waiting right behind the victim.
        for r in range(rounds):
            if viol:
                break
            out = {}

            def holder(k):
                try:
                    server.call(tok(50 + k, r, S), timeout=10, backpressure=False)
                except Exception as e:  # noqa: BLE001
                    out['holder'] = e

            hs = [_th.Thread(target=holder, args=(k,), name=f'holder-{k}') for k in range(cap)]
            for h in hs:
                h.start()
            t_end = time.monotonic() + 5
            while server.backlog < cap and time.monotonic() < t_end:
                time.sleep(0.0005)
            t_full = time.monotonic()
            delta = (-6 + (r % 12)) * 0.001  # victim's patience relative to the remaining service time
            vdl = max(0.002, (S + delta) / 0.99)

            def victim():
                try:
                    server.call(tok(1, r, 0.001), timeout=vdl, backpressure=False)
                except ServerBacklogFull:
                    with mu:
                        obs['gave_up_waiting_for_room'] += 1
                except (MpTimeout, TimeoutError):
                    with mu:
                        obs['abandoned_calls'] += 1

            def witness():
                t = tok(100, r, 0.001)
                try:
                    y = server.call(t, timeout=4, backpressure=False)
                except Exception as e:  # noqa: BLE001
                    y = e
                with mu:
                    note_witness(t, y)

            v = _th.Thread(target=victim, name='victim')
            w = _th.Thread(target=witness, name='witness')
            v.start()
            time.sleep(0.002)
            w.start()
            for t in hs + [v, w]:
                t.join()

    async def async_body():
        running = True

        async def staller():
            # some other coroutine of the application hogs the loop for a few ms at a time: timers and notifications that become due
            # during a stall are then processed back-to-back in one loop iteration (a legal schedule)
            k = 0
            while running:
                time.sleep(0.0005 + 0.0005 * (k % 7))
                k += 1
                await asyncio.sleep(0 if k % 3 else 0.0007)

        st_task = asyncio.ensure_future(staller()) if case['site'] else None
        try:
            await async_rounds()
        finally:
            running = False
            if st_task:
                await st_task

    async def async_rounds():
        for r in range(rounds * 2):
            if viol:
                break
            hs = [asyncio.ensure_future(server.call(tok(50 + k, r, S), timeout=10, backpressure=False)) for k in range(cap)]
            t_end = time.monotonic() + 5
            while server.backlog < cap and time.monotonic() < t_end:
                await asyncio.sleep(0.0005)
            delta = (-6 + (r % 12)) * 0.001
            vdl = max(0.002, (S + delta) / 0.99)

            async def victim():
                if r % 2:
                    # the async idiom of giving up: the waiting task is cancelled (about when the slot is freed)
                    task = asyncio.ensure_future(server.call(tok(1, r, 0.001), timeout=10, backpressure=False))
                    await asyncio.sleep(max(0.001, S + delta))
                    task.cancel()
                    try:
                        await task
                    except asyncio.CancelledError:
                        obs['cancelled_while_waiting_for_room'] = obs.get('cancelled_while_waiting_for_room', 0) + 1
                    except Exception:  # noqa: BLE001
                        pass
                    return
                try:
                    await server.call(tok(1, r, 0.001), timeout=vdl, backpressure=False)
                except ServerBacklogFull:
                    obs['gave_up_waiting_for_room'] += 1
                except (MpTimeout, TimeoutError):
                    obs['abandoned_calls'] += 1

            async def witness():
                t = tok(100, r, 0.001)
                try:
                    y = await server.call(t, timeout=4, backpressure=False)
                except Exception as e:  # noqa: BLE001
                    y = e
                note_witness(t, y)

            v = asyncio.ensure_future(victim())
            await asyncio.sleep(0.002)
            w = asyncio.ensure_future(witness())
            await asyncio.gather(v, w, *hs, return_exceptions=True)

    def lifetime():
        try:
            if is_async:
                async def main():
                    async with server:
                        await async_body()
                asyncio.run(main())
            else:
                with server:
                    with fz:
                        sync_body()
        except Exception as e:  # noqa: BLE001
            viol.append({'mech': 'abandon/exit-raised', 'msg': f'server context raised {e!r}'})

    try:
        watch.run_bounded(lifetime, BOUND, 'server lifetime')
    except watch.Hang as h:
        viol.append({'mech': 'abandon/hang', 'msg': 'server lifetime with callers giving up waiting for room did not finish; stacks stable', 'stacks': h.stacks})
        return {'violations': viol, 'obs': obs, 'exit_after': True}
    except watch.Inconclusive as e:
        return {'violations': viol, 'obs': obs, 'inconclusive': str(e), 'exit_after': True}
    st = fz.stats()
    res = {'violations': viol[:4], 'obs': obs, 'nontrivial': obs['gave_up_waiting_for_room'] + obs.get('cancelled_while_waiting_for_room', 0) > 0 and obs['witness_requests'] > 0, 'fuzz': st if case['site'] and not is_async else None,
           'sig': hash(('enq-to', case['mode'], cap, case['seed'])) & 0xFFFFFFFFFFFF,
           'sample': {'scenario': 'enqueue-timeouts', 'mode': case['mode'], 'capacity': cap, 'victims': case['victims'], 'gave_up_waiting_for_room': obs['gave_up_waiting_for_room'],
                      'witness_requests': obs['witness_requests'], 'site_hits': st['site_hits']}}
    if viol:
        res['exit_after'] = True
    return res


def _stream_deadline(case):
    """stream(timeout=0.2): elements that need 2 s are not ready by their deadline -> TimeoutError in their place (or raised, when exceptions
    are not returned), for the stream's consumer just as for a caller of call(); the other elements, a later call and the shutdown are unaffected."""
    import asyncio

    from mpservice._common import TimeoutError as MpTimeout
    from mpservice.mpserver import AsyncServer, Server, ThreadServlet

    viol = []
    obs = {'lifetimes': 1, 'stream_deadline_lifetimes': 1, 'stream_elements_past_deadline': 0, 'witness_requests': 0, 'final_calls': 0, 'abandoned_calls': 0}
    late = set(case['late'])
    n = case['n']
    toks = [tok(1, i, 2.0 if i in late else 0.0) for i in range(n)]
    rexc = case['return_exceptions']
    is_async = case['mode'] == 'async'
    server = (AsyncServer if is_async else Server)(ThreadServlet(ST.TagWorker, tag='A', num_threads=len(late) + 2), capacity=64)
    out, box = [], {}

    def sync_body():
        with server:
            t0 = time.monotonic()
            try:
                for y in server.stream(iter(toks), return_exceptions=rexc, timeout=0.2):
                    out.append(y)
            except BaseException as e:  # noqa: BLE001
                box['raised'] = e
            box['stream_s'] = time.monotonic() - t0
            box['final'] = server.call(tok(999, 0, 0.001), timeout=30)
        box['backlog'] = server.backlog

    async def async_body():
        async with server:
            t0 = time.monotonic()

            async def src():
                for t in toks:
                    yield t

            try:
                async for y in server.stream(src(), return_exceptions=rexc, timeout=0.2):
                    out.append(y)
            except BaseException as e:  # noqa: BLE001
                box['raised'] = e
            box['stream_s'] = time.monotonic() - t0
            box['final'] = await server.call(tok(999, 0, 0.001), timeout=30)
        box['backlog'] = server.backlog

    try:
        watch.run_bounded((lambda: asyncio.run(async_body())) if is_async else sync_body, 60, 'stream with element deadlines')
    except watch.Hang as h:
        viol.append({'mech': 'stream-deadline/hang', 'msg': h.what, 'stacks': h.stacks})
        return {'violations': viol, 'obs': obs, 'exit_after': True, 'nontrivial': True, 'sig': repr(case)}
    inconclusive = None
    first_late = min(late)
    upto = n if rexc else first_late
    for i, y in enumerate(out[:upto]):
        if i in late:
            if isinstance(y, (MpTimeout, TimeoutError)):
                obs['stream_elements_past_deadline'] += 1
                obs['abandoned_calls'] += 1
            else:
                viol.append({'mech': 'stream-deadline/late-element-not-timed-out', 'msg': f'{case["mode"]} stream(timeout=0.2): element {i} needs 2 s; the consumer got {str(y)[:120]!r} after '
                             f'{box.get("stream_s", 0):.2f} s in total instead of TimeoutError (call() with the same timeout raises TimeoutError)'})
                break
        elif y != ('A', toks[i]):
            if isinstance(y, (MpTimeout, TimeoutError)):
                inconclusive = f'a fast element timed out (loaded machine?): element {i}'
            else:
                viol.append({'mech': 'stream-deadline/wrong-output', 'msg': f'element {i}: {str(y)[:200]!r}'})
            break
    if not viol and inconclusive is None:
        if len(out) != upto:
            viol.append({'mech': 'stream-deadline/wrong-number-of-outputs', 'msg': f'{len(out)} outputs, expected {upto} (return_exceptions={rexc}, late elements {sorted(late)}); raised: {box.get("raised")!r}'})
        elif not rexc and not isinstance(box.get('raised'), (MpTimeout, TimeoutError)):
            viol.append({'mech': 'stream-deadline/late-element-not-timed-out', 'msg': f'{case["mode"]} stream(timeout=0.2, return_exceptions=False): element {first_late} needs 2 s; the stream '
                         f'{"raised " + repr(box.get("raised")) if box.get("raised") is not None else "ended normally"} after {box.get("stream_s", 0):.2f} s instead of raising TimeoutError'})
        elif not rexc:
            obs['stream_elements_past_deadline'] += 1
            obs['abandoned_calls'] += 1
        elif box.get('raised') is not None:
            viol.append({'mech': 'stream-deadline/unexpected-error', 'msg': f'stream raised {box["raised"]!r}'})
    obs['final_calls'] += 1
    obs['witness_requests'] += 1
    if not viol and box.get('final') != ('A', tok(999, 0, 0.001)):
        viol.append({'mech': 'abandon/witness-wrong', 'msg': f'the call after the stream got {box.get("final")!r}'})
    if not viol and box.get('backlog') != 0:
        viol.append({'mech': 'abandon/backlog-after-exit', 'msg': f'backlog {box.get("backlog")} after exit'})
    r = {'violations': viol, 'obs': obs, 'nontrivial': True, 'sig': repr((case['mode'], rexc, sorted(late), n)),
         'sample': {'scenario': 'stream-deadline', 'mode': case['mode'], 'return_exceptions': rexc, 'late': sorted(late), 'outputs': len(out), 'stream_seconds': round(box.get('stream_s', 0), 2)}}
    if inconclusive and not viol:
        r['inconclusive'] = inconclusive
    return r


def run_case(case):
    if case['scenario'] == 'mass-abandon':
        return _mass_abandon(case)
    if case['scenario'] == 'stream-deadline':
        return _stream_deadline(case)
    if case['scenario'] == 'enqueue-timeouts':
        return _enqueue_timeouts(case)
    _PAD['pad'] = 'x' * case['pad'] if case.get('pad') else None
    import mpservice.mpserver._server as SV
    import mpservice.streamer._streamer as S
    from mpservice._common import TimeoutError as MpTimeout
    from mpservice.mpserver import AsyncServer, Server, ThreadServlet

    viol = []
    obs = {'lifetimes': 1, 'abandoned_calls': 0, 'abandoned_result_seen_before_cancel': 0, 'abandoned_result_seen_after_cancel': 0,
           'abandoned_never_seen': 0, 'witness_requests': 0, 'streams_closed_early': 0, 'pending_at_close': 0, 'cancelled_tasks': 0, 'final_calls': 0}
    kw = {'batch_size': case['batch'], 'batch_wait_time': 0.001} if case['batch'] else {}
    if case.get('process'):
        from mpservice.mpserver import ProcessServlet

        servlet = ProcessServlet(ST.TagWorker, cpus=[None] * case['workers'], tag='A')
    else:
        servlet = ThreadServlet(ST.TagWorker, tag='A', num_threads=case['workers'], **kw)
    is_async = case['mode'] == 'async'
    server = (AsyncServer if is_async else Server)(servlet, capacity=case['capacity'])
    shadow = SH.install_ledger_shadow(server)
    futs = []
    lock = threading.Lock()
    try:  # optional evidence probe: remember the futures of all requests
        orig_wait = server._wait_for_result
        if is_async:
            async def wait_wrapper(fut):
                futs.append(fut)
                return await orig_wait(fut)
        else:
            def wait_wrapper(fut):
                with lock:
                    futs.append(fut)
                return orig_wait(fut)
        server._wait_for_result = wait_wrapper
    except Exception:
        pass
    dr = watch.DeathRecorder().install()
    fz = schedfuzz.SchedFuzz(seed=case['seed'], p=0.02, changepoints=1, changepoint_delay=0.005)
    fz.add(SV.Server._gather_output, SV.Server._wait_for_result, SV.AsyncServer._gather_output, SV.AsyncServer._wait_for_result, S.fifo_stream, S.async_fifo_stream)
    fz.add_site(SV.Server._gather_output, 'if not fut.cancelled():', prob=0.35, delay=0.002, where='after', name='gather-between-check-and-resolve')
    fz.add_site(SV.Server._wait_for_result, 'fut.cancel()', prob=0.3, delay=0.001, where='at', name='caller-before-cancel')
    fz.add_site(SV.AsyncServer._gather_output, 'if not fut.cancelled():', prob=0.35, delay=0.002, where='after', name='async-gather-between-check-and-resolve')
    fz.add_site(S.fifo_stream, 't.cancel()', prob=0.3, delay=0.001, where='at', name='fifo-cancel-loop')

    def check_witness(t, y, where):
        obs['witness_requests'] += 1
        if isinstance(y, BaseException) and not (t[3] and any(a == 'fail' for _, a, _ in t[3])):
            mech = 'abandon/witness-lost' if isinstance(y, (MpTimeout, TimeoutError)) else 'abandon/witness-wrong'
            viol.append({'mech': mech, 'msg': f'{where}: request {t[:3]} with a 30 s deadline got {y!r} while other requests were being abandoned'})
            return
        got = SH.norm_outcome(y)
        exp = ('EXC', 'Boom', ('A', (t[1], t[2]))) if any(a == 'fail' for _, a, _ in t[3]) else ('A', t)
        if got != SH.norm_outcome(exp) and got != exp:
            viol.append({'mech': 'abandon/witness-wrong', 'msg': f'{where}: request {t[:3]} got {got!r}, expected {exp!r}'})

    deadlines = [SERVICE * (0.2 + 2.3 * k / 19) for k in range(20)]

    def sync_body():
        stop = threading.Event()

        def victim(c):
            r = random.Random(case['seed'] + c)
            for rd in range(case['rounds']):
                for k, dl in enumerate(deadlines):
                    # every third victim's late outcome is a failure (the worker raises), not a value
                    t = tok(c, rd * 100 + k, sleep=SERVICE * r.choice([0.5, 1, 1, 1.5]), fail=(k % 3 == 2 and not case['batch']))
                    try:
                        y = server.call(t, timeout=dl, backpressure=False)
                        with lock:
                            check_witness(t, y, 'victim-in-time')
                            obs['witness_requests'] -= 1
                    except (MpTimeout, TimeoutError):
                        with lock:
                            obs['abandoned_calls'] += 1
                    except Exception as e:  # noqa: BLE001
                        with lock:
                            if type(e).__name__ == 'ServerBacklogFull' and e.args[1] is not None:
                                obs['gave_up_waiting_for_room'] = obs.get('gave_up_waiting_for_room', 0) + 1
                            elif type(e).__name__ == 'Boom' and any(a == 'fail' for _, a, _ in t[3]):
                                check_witness(t, e, 'victim-in-time')  # its own failure arrived in time
                                obs['witness_requests'] -= 1
                            else:
                                viol.append({'mech': 'abandon/victim-wrong-error', 'msg': f'short-deadline call raised {e!r} instead of TimeoutError'})

        def stream_victim(c):
            r = random.Random(case['seed'] + c)
            for rd in range(case['rounds'] * 4):
                n = 6
                pos = rd % (n + 1)
                # on odd rounds the elements the consumer never reaches end in a failure (their late outcome is an exception)
                toks = [tok(c, rd * 100 + k, sleep=SERVICE * r.choice([0.25, 1]), fail=(rd % 2 == 1 and k > pos and not case['batch'])) for k in range(n)]
                it = server.stream(iter(toks), return_x=True, timeout=30)
                k = 0
                try:
                    if pos > 0:
                        for x, y in it:
                            with lock:
                                check_witness(x, y, 'stream-before-close')
                                obs['witness_requests'] -= 1
                            k += 1
                            if k >= pos:
                                break
                except Exception as e:  # noqa: BLE001
                    # a saturated small server may legitimately make a stream element wait for room until its timeout
                    with lock:
                        if type(e).__name__ == 'ServerBacklogFull' and e.args[1] is not None:
                            obs['gave_up_waiting_for_room'] = obs.get('gave_up_waiting_for_room', 0) + 1
                        else:
                            viol.append({'mech': 'abandon/stream-raised', 'msg': f'stream raised {e!r} at position {k}'})
                finally:
                    with lock:
                        obs['pending_at_close'] += server.backlog
                        obs['streams_closed_early'] += 1
                    it.close()

        def witness(c):
            s = 0
            while not stop.is_set():
                t = tok(c, s, sleep=SERVICE * 0.5, fail=(s % 9 == 4 and not case['batch']))
                try:
                    y = server.call(t, timeout=30, backpressure=False)
                except BaseException as e:  # noqa: BLE001
                    y = e
                with lock:
                    check_witness(t, y, 'witness')
                s += 1
                if case['capacity'] <= 2:
                    time.sleep(0.002)  # do not monopolise the only slot: waiters are not served in FIFO order

        vt = stream_victim if case['scenario'] == 'stream-close' else victim
        vs = [threading.Thread(target=vt, args=(c,), name=f'victim-{c}') for c in range(case['victims'])]
        ws = [threading.Thread(target=witness, args=(100 + c,), name=f'witness-{c}') for c in range(case['witnesses'])]
        for t in vs + ws:
            t.start()
        t_lim = time.monotonic() + 45
        for t in vs:
            t.join(max(0.0, t_lim - time.monotonic()))
        # stop the witnesses in any case: if a victim is wedged, the busy witnesses would otherwise keep the stacks changing and
        # the watchdog could not tell a hang from slow progress
        stop.set()
        for t in ws:
            t.join()
        for t in vs:
            t.join()
        # afterwards the server must still work
        for s in range(3):
            t = tok(999, s, sleep=0.0005)
            try:
                y = server.call(t, timeout=30, backpressure=False)
            except BaseException as e:  # noqa: BLE001
                y = e
            check_witness(t, y, 'final')
            obs['final_calls'] += 1
        info = server.debug_info()
        if info.get('gather_thread') != 'is_alive':
            viol.append({'mech': 'abandon/gather-thread-dead', 'msg': f"debug_info()['gather_thread'] = {info.get('gather_thread')!r}"})

    async def async_body():
        stop = asyncio.Event()

        async def victim(c):
            r = random.Random(case['seed'] + c)
            for rd in range(case['rounds']):
                for k, dl in enumerate(deadlines):
                    # every third victim's late outcome is a failure (the worker raises), not a value
                    t = tok(c, rd * 100 + k, sleep=SERVICE * r.choice([0.5, 1, 1, 1.5]), fail=(k % 3 == 2 and not case['batch']))
                    if k % 5 == 4:
                        task = asyncio.ensure_future(server.call(t, timeout=30, backpressure=False))
                        await asyncio.sleep(dl)
                        task.cancel()
                        try:
                            await task
                        except (asyncio.CancelledError, Exception):
                            pass
                        obs['cancelled_tasks'] += 1
                        continue
                    try:
                        y = await server.call(t, timeout=dl, backpressure=False)
                        check_witness(t, y, 'victim-in-time')
                        obs['witness_requests'] -= 1
                    except (MpTimeout, TimeoutError):
                        obs['abandoned_calls'] += 1
                    except Exception as e:  # noqa: BLE001
                        if type(e).__name__ == 'ServerBacklogFull' and e.args[1] is not None:
                            obs['gave_up_waiting_for_room'] = obs.get('gave_up_waiting_for_room', 0) + 1
                        elif type(e).__name__ == 'Boom' and any(a == 'fail' for _, a, _ in t[3]):
                            check_witness(t, e, 'victim-in-time')
                            obs['witness_requests'] -= 1
                        else:
                            viol.append({'mech': 'abandon/victim-wrong-error', 'msg': f'short-deadline call raised {e!r} instead of TimeoutError'})

        async def stream_victim(c):
            r = random.Random(case['seed'] + c)
            for rd in range(case['rounds'] * 4):
                if rd % 4 == 3:
                    # the async way of dropping a stream: the task that consumes it is cancelled while it waits for the next result (a
                    # framework does this when the client disconnects); many inputs remain.  The cancellation must complete.
                    many = [tok(c, rd * 1000 + k, sleep=SERVICE * 2) for k in range(400)]

                    async def src2():
                        for t in many:
                            yield t

                    async def consume():
                        async for x, y in server.stream(src2(), return_x=True, timeout=30):
                            check_witness(x, y, 'astream-before-cancel')
                            obs['witness_requests'] -= 1

                    task = asyncio.ensure_future(consume())
                    await asyncio.sleep(SERVICE * r.choice([1.5, 3, 6]))
                    task.cancel()
                    try:
                        await task
                    except asyncio.CancelledError:
                        obs['streams_dropped_by_task_cancellation'] = obs.get('streams_dropped_by_task_cancellation', 0) + 1
                    except Exception as e:  # noqa: BLE001
                        if type(e).__name__ != 'ServerBacklogFull':
                            viol.append({'mech': 'abandon/stream-raised', 'msg': f'cancelled stream consumer ended with {e!r}'})
                    obs['streams_closed_early'] += 1
                    continue
                n = 6
                pos = rd % (n + 1)
                # on odd rounds the elements the consumer never reaches end in a failure (their late outcome is an exception)
                toks = [tok(c, rd * 100 + k, sleep=SERVICE * r.choice([0.25, 1]), fail=(rd % 2 == 1 and k > pos and not case['batch'])) for k in range(n)]

                async def src():
                    for t in toks:
                        yield t

                ait = server.stream(src(), return_x=True, timeout=30)
                k = 0
                try:
                    if pos > 0:
                        async for x, y in ait:
                            check_witness(x, y, 'astream-before-close')
                            obs['witness_requests'] -= 1
                            k += 1
                            if k >= pos:
                                break
                except Exception as e:  # noqa: BLE001
                    if type(e).__name__ == 'ServerBacklogFull' and e.args[1] is not None:
                        obs['gave_up_waiting_for_room'] = obs.get('gave_up_waiting_for_room', 0) + 1
                    else:
                        viol.append({'mech': 'abandon/stream-raised', 'msg': f'async stream raised {e!r} at position {k}'})
                finally:
                    obs['pending_at_close'] += server.backlog
                    obs['streams_closed_early'] += 1
                    await ait.aclose()

        async def witness(c):
            s = 0
            while not stop.is_set():
                t = tok(c, s, sleep=SERVICE * 0.5, fail=(s % 9 == 4 and not case['batch']))
                try:
                    y = await server.call(t, timeout=30, backpressure=False)
                except Exception as e:  # noqa: BLE001
                    y = e
                check_witness(t, y, 'witness')
                s += 1
                if case['capacity'] <= 2:
                    await asyncio.sleep(0.002)

        vt = stream_victim if case['scenario'] == 'stream-close' else victim
        ws = [asyncio.ensure_future(witness(100 + c)) for c in range(case['witnesses'])]
        vs = [asyncio.ensure_future(vt(c)) for c in range(case['victims'])]
        await asyncio.wait(vs, timeout=45)
        stop.set()  # see the sync twin
        await asyncio.gather(*ws)
        await asyncio.gather(*vs)
        for s in range(3):
            t = tok(999, s, sleep=0.0005)
            try:
                y = await server.call(t, timeout=30, backpressure=False)
            except Exception as e:  # noqa: BLE001
                y = e
            check_witness(t, y, 'final')
            obs['final_calls'] += 1
        info = server.debug_info()
        if info.get('gather_thread') != 'is_alive':
            viol.append({'mech': 'abandon/gather-thread-dead', 'msg': f"debug_info()['gather_thread'] = {info.get('gather_thread')!r}"})

    loop_errors = []

    def lifetime():
        if is_async:
            async def main():
                def on_loop_error(loop, ctx):
                    msg = str(ctx.get('message'))
                    if 'was never retrieved' in msg:
                        # the failure of an abandoned request that nobody will ever look at (e.g. the one element the feeder of a closed stream
                        # submitted last): asyncio logs it when the future is collected.  Noise, not harm: counted, not a violation
                        obs['unretrieved_abandoned_failures'] = obs.get('unretrieved_abandoned_failures', 0) + 1
                        return
                    loop_errors.append((msg + ': ' + repr(ctx.get('exception')))[:300])

                asyncio.get_running_loop().set_exception_handler(on_loop_error)
                try:
                    async with server:
                        with fz:
                            await async_body()
                except Exception as e:  # noqa: BLE001
                    viol.append({'mech': 'abandon/exit-raised', 'msg': f'server context raised {e!r}'})
            asyncio.run(main())
        else:
            try:
                with server:
                    with fz:
                        sync_body()
            except Exception as e:  # noqa: BLE001
                viol.append({'mech': 'abandon/exit-raised', 'msg': f'server context raised {e!r}'})

    try:
        watch.run_bounded(lifetime, BOUND, 'server lifetime')
    except watch.Hang as h:
        viol.append({'mech': 'abandon/hang', 'msg': 'server lifetime (incl. __exit__) did not finish after requests were abandoned; stacks stable', 'stacks': h.stacks})
        return {'violations': viol, 'obs': obs, 'exit_after': True, 'fuzz': fz.stats()}
    except watch.Inconclusive as e:
        return {'violations': viol, 'obs': obs, 'inconclusive': str(e), 'exit_after': True}
    finally:
        dr.uninstall()
    deaths = dr.snapshot()
    if deaths:
        viol.append({'mech': 'abandon/helper-thread-died', 'msg': f'{deaths[0]}'[:700]})
    if loop_errors:
        obs['loop_exception_handler_calls'] = len(loop_errors)
        viol.append({'mech': 'abandon/event-loop-callback-raised', 'msg': f'{len(loop_errors)} exceptions in event-loop callbacks; first: {loop_errors[0]}'})
    for f in futs:
        d = getattr(f, 'data', {})
        if 't_cancelled' in d:
            if 't2' not in d:
                obs['abandoned_never_seen'] += 1
            elif d['t2'] < d['t_cancelled']:
                obs['abandoned_result_seen_before_cancel'] += 1
            else:
                obs['abandoned_result_seen_after_cancel'] += 1
    if shadow is not None and shadow.misses:
        viol.append({'mech': 'abandon/result-for-unknown-id', 'msg': f'{len(shadow.misses)} results for ids not in the ledger'})
    nontrivial = (obs['abandoned_calls'] + obs['streams_closed_early'] + obs['cancelled_tasks']) > 0 and obs['witness_requests'] > 0
    st = fz.stats()
    res = {'violations': viol[:6], 'obs': obs, 'nontrivial': nontrivial, 'fuzz': st,
           'sig': hash((case['scenario'], case['mode'], case['workers'], case['seed'])) & 0xFFFFFFFFFFFF,
           'sample': {'scenario': case['scenario'], 'mode': case['mode'], 'workers': case['workers'], 'victims': case['victims'],
                      'abandoned_calls': obs['abandoned_calls'], 'seen_before_cancel': obs['abandoned_result_seen_before_cancel'],
                      'seen_after_cancel': obs['abandoned_result_seen_after_cancel'], 'streams_closed_early': obs['streams_closed_early'],
                      'witness_requests': obs['witness_requests'], 'site_hits': st['site_hits']}}
    if viol or case.get('process'):
        res['exit_after'] = True
    return res


def decide_inconclusive(obs, results, cases):
    if obs.get('abandoned_calls', 0) == 0 or obs.get('streams_closed_early', 0) == 0:
        return 'no abandoned call / no early-closed stream was observed'
    if obs.get('abandoned_result_seen_after_cancel', 0) == 0 or obs.get('abandoned_result_seen_before_cancel', 0) == 0:
        return 'abandonments never landed on both sides of the gather thread'
    return None


RULE = RULE + '; mass abandonment (8-300 requests at once, then shutdown or one more call); enqueue-timeout rounds (a caller gives up -- timeout or task cancellation -- waiting for room within +-6 ms of the slot being freed, a patient caller right behind it; delay site in threading.Condition.wait, loop staller under asyncio); process lifetimes with 100-300 kB inputs'
