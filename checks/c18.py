"""C18 — socket and pipe transports deliver intact and to the right request."""
from __future__ import annotations

import os
import random
import shutil
import tempfile
import threading
import time

from vlib import schedfuzz, srvharness as SH, targets, watch

PROPERTY = 'C18'
LEVEL = 'exploration'
RULE = ('socket: one server process per case, client with 1-4 connections and 1-8 requester threads; every request carries a unique tag and a payload from '
        '{empty/newline/header-look-alike bytes, falsy non-None values, unicode, 64 KiB +/- 1, 1-8 MB, nested objects}, a payload-derived handler latency '
        '(responses reorder across connections) and a failure flag; the handler answers (tag, type, length, sha256) or raises KeyError(tag); stream() '
        'order; adversarial id() reuse for request ids; delay injection in the client send/receive coroutines (targeted between write_record and the '
        'registration of the request). pipe: scripted bidirectional exchanges between two processes with objects across PIPE_BUF and 1 MB. '
        'non-trivial = case with >=2 connections, >=2 requesters and a payload >= 64 KiB or a failing request; distinct = distinct (config, seed); ~8% abandoned requests (response_timeout 5-30 ms against 50-300 ms handlers) followed by more requests; handler latencies and idle gaps around the 0.1 s / 1 s polling intervals')
ASSUMPTIONS = ['payload integrity is judged by (type name, byte length, sha256) computed independently on both sides',
               'a request unanswered after 60 s with stable stacks is a lost response']
CASE_TIMEOUT = 240
PARALLEL = 12
GROUP = 1
BOUND = 90

LITERALS = ['nl', 'header', 'header2', 'empty', 'zero', 'false', 'estr', 'elist', 'edict', 'fzero', 'etuple', 'str-nl', 'unicode', 'surrogate', 'strsub', 'bytessub', 'true', 'none-in-list']


def gen_cases(tier, seed):
    rng = random.Random(seed)
    cases = []
    for i in range(36 if tier == 'quick' else 500):
        cases.append({'kind': 'socket', 'connections': rng.choice([1, 2, 3, 4]), 'requesters': rng.choice([1, 2, 4, 8]), 'per_requester': rng.choice([10, 25]),
                      'big': rng.choice([0, 1, 1, 2]), 'advid': rng.choice([None, 'lifo', 'random']), 'fuzz': rng.random() < 0.7, 'seed': rng.randrange(1 << 30)})
    for c in cases:
        if c.get('kind', 'socket') != 'pipe':
            k = c['seed'] % 8
            c['tcp'] = k in (1, 5)                    # the other transport: TCP on 127.0.0.1
            c['stream_failures'] = k in (2, 5, 6)     # stream() over elements whose handler raises, return_exceptions=True
            if k == 3:
                c['server_backlog'], c['client_backlog'] = 2, 3   # tiny per-connection / client queues
    for i in range(2 if tier == 'quick' else 20):
        cases.append({'kind': 'socket-stream-gaps', 'streams': 8, 'seed': rng.randrange(1 << 30)})
    # a request that cannot be transported, among ordinary ones
    for i, what in enumerate(['response', 'payload', 'deep-payload', 'unloadable-payload', 'unloadable-response'] * (1 if tier == 'quick' else 4)):
        cases.append({'kind': 'socket-poison', 'what': what, 'connections': [1, 2, 3, 1, 2][(i // 5 + i) % 5], 'rounds': 2, 'seed': rng.randrange(1 << 30)})
    for i in range(8 if tier == 'quick' else 100):
        cases.append({'kind': 'pipe', 'steps': rng.choice([6, 20]), 'seed': rng.randrange(1 << 30)})
    # one side sends its last object and ends at once; the other side is slow to get to its first recv
    for i in range(1 if tier == 'quick' else 6):
        cases.append({'kind': 'pipe', 'steps': 0, 'late_reader': ['client', 'server'][i % 2], 'late_by': [0.4, 1.2, 0.1][i % 3], 'last_objects': 1 + i % 3, 'seed': rng.randrange(1 << 30)})
    # one side is created (and waits in its first recv) well before the other side exists
    for i in range(2 if tier == 'quick' else 8):
        cases.append({'kind': 'pipe', 'steps': 0, 'early_reader': ['client', 'server'][i % 2], 'late_by': [0.5, 1.5][i // 2 % 2], 'seed': rng.randrange(1 << 30)})
    return cases


def payload_spec(rng, big):
    r = rng.random()
    if r < 0.3:
        return ['literal', rng.choice(LITERALS)]
    if r < 0.5:
        return ['bytes', rng.choice([1, 10, 4095, 4096, 4097, 65535, 65536, 65537]), rng.randrange(1 << 20)]
    if r < 0.6:
        return ['nested', rng.choice([0, 3, 200])]
    if r < 0.7:
        return ['str', rng.choice([1, 1000, 70000])]
    if big and r < 0.7 + 0.08 * big:
        return ['bytes', rng.choice([1_000_000, 3_000_000, 8_000_000]), rng.randrange(1 << 20)]
    return ['bytes', rng.randrange(0, 3000), rng.randrange(1 << 20)]


def run_socket(case):
    import mpservice.multiprocessing as mm
    import mpservice.socket as MS
    from mpservice.multiprocessing.remote_exception import get_remote_traceback, is_remote_exception

    rng = random.Random(case['seed'])
    viol = []
    seen_excs = set()
    obs = {'socket_cases': 1, 'requests': 0, 'failing_requests': 0, 'stream_items': 0, 'bytes_sent': 0, 'max_payload': 0, 'reordered_responses': 0}
    d = tempfile.mkdtemp(prefix='vf-c18-')
    path = os.path.join(d, 'sock')
    tcp_port = None
    if case.get('tcp'):
        import socket as _socket

        with _socket.socket() as sk:
            sk.bind(('127.0.0.1', 0))
            tcp_port = sk.getsockname()[1]
    srv = mm.Process(target=targets.c18_server, args=(path, None, tcp_port, case.get('server_backlog')))
    srv.start()
    conn_kw = dict(host='127.0.0.1', port=tcp_port) if tcp_port else dict(path=path)
    if case.get('client_backlog'):
        conn_kw['backlog'] = case['client_backlog']
    adv = SH.AdvId(case['advid'], case['seed']).install(MS) if case['advid'] else None
    fz = schedfuzz.SchedFuzz(seed=case['seed'], p=0.02) if case['fuzz'] else schedfuzz.NullFuzz()
    fz.add(MS.SocketClient._open_connections, MS.SocketClient.stream, MS.write_record, MS.read_record)
    fz.add_site(MS.SocketClient._open_connections, 'await write_record(writer, req_id, x, encoder=encoder)', prob=0.15, delay=0.004, where='after',
                name='client-between-send-and-registration')
    lock = threading.Lock()
    order_log = []
    nreq = case['requesters']
    plans = []
    for c in range(nreq):
        reqs = []
        for s in range(case['per_requester']):
            spec = payload_spec(rng, case['big'])
            latency = rng.choice([0, 0, 0.001, 0.004, 0.012])
            if rng.random() < 0.06:
                # around the transports' polling intervals (0.1 s read timeouts, 1 s)
                latency = round(rng.choice([rng.uniform(0.095, 0.108), rng.uniform(0.095, 0.108), rng.uniform(0.195, 0.205), rng.uniform(0.99, 1.02)]), 4)
            fail = rng.choice(targets.HANDLER_EXCS) if rng.random() < 0.12 else False
            abandon = None
            if rng.random() < 0.08 and c % 4 != 3:
                # the caller gives up on this request long before the handler answers; later requests must be unaffected
                latency, fail, abandon = round(rng.uniform(0.05, 0.3), 3), False, round(rng.uniform(0.005, 0.03), 4)
            reqs.append(((c, s), latency, fail, spec, abandon))
        plans.append(reqs)

    def lifetime():
        with MS.SocketClient(num_connections=case['connections'], connection_timeout=30, **conn_kw) as client:
            with fz:
                def requester(c):
                    mine = plans[c]
                    if c % 4 == 3:
                        # stream: order must be preserved
                        with_failures = case.get('stream_failures')
                        items = [(tag, lat, (fail if with_failures else False), targets.make_payload(spec)) for tag, lat, fail, spec, _ab in mine]
                        k = 0
                        for x, y in client.stream('/tagged', iter(items), return_x=True, **({'return_exceptions': True} if with_failures else {})):
                            with lock:
                                obs['stream_items'] += 1
                                want = (items[k][0], targets.digest(items[k][3]))
                                if items[k][2]:
                                    # a failing stream element yields its own exception in its own place
                                    obs['failing_stream_items'] = obs.get('failing_stream_items', 0) + 1
                                    if x[0] != items[k][0] or type(y) is not targets.handler_exc_class(items[k][2]) or tuple(y.args) != (items[k][0],):
                                        viol.append({'mech': 'socket/stream-order-or-content', 'msg': f'stream position {k}: failing input {items[k][0]} ({items[k][2]}) yielded x={x[0]} y={y!r}'[:300]})
                                elif isinstance(y, BaseException) or x[0] != items[k][0] or tuple(y[0]) != items[k][0] or tuple(y[1]) != want[1]:
                                    viol.append({'mech': 'socket/stream-order-or-content', 'msg': f'stream position {k}: input {items[k][0]} yielded x={x[0]} y={y!r}'[:300]})
                            k += 1
                        with lock:
                            if k != len(items):
                                viol.append({'mech': 'socket/stream-count', 'msg': f'stream yielded {k} of {len(items)}'})
                        return
                    for tag, lat, fail, spec, abandon in mine:
                        if abandon is not None:
                            try:
                                y = client.request('/tagged', (tag, lat, False, targets.make_payload(spec)), response_timeout=abandon)
                            except BaseException as e:  # noqa: BLE001
                                y = e
                            with lock:
                                obs['requests'] += 1
                                if isinstance(y, TimeoutError) or type(y).__name__ == 'TimeoutError':
                                    obs['abandoned_requests'] = obs.get('abandoned_requests', 0) + 1
                                elif not (isinstance(y, tuple) and tuple(y[0]) == tag):
                                    viol.append({'mech': 'socket/response-to-wrong-request', 'msg': f'request {tag} (response_timeout {abandon}s) received {y!r}'[:300]})
                            continue
                        if c == 0 and tag[1] % 7 == 3:
                            time.sleep(0.1 + (tag[1] % 5) * 0.002)  # the connection sits idle for about one read timeout
                        payload = targets.make_payload(spec)
                        dg = targets.digest(payload)
                        route = '/tagged'
                        mode = 'tagged'
                        if not fail and spec[0] == 'literal' and hash(tag) % 3 == 0:
                            mode = 'raw'
                        elif not fail and (spec[0] in ('literal', 'str') or (spec[0] == 'bytes' and spec[1] <= 70000)) and hash(tag) % 3 == 1:
                            mode = 'echo'  # the response IS the payload: it must come back intact, type included
                        try:
                            if mode == 'raw':
                                y = client.request('/raw', payload, response_timeout=60)
                            elif mode == 'echo':
                                y = client.request('/echo', payload, response_timeout=15)
                            else:
                                y = client.request('/tagged', (tag, lat, fail, payload), response_timeout=15 if fail else 60)
                        except BaseException as e:  # noqa: BLE001
                            y = e
                        with lock:
                            obs['requests'] += 1
                            obs['bytes_sent'] += dg[1]
                            obs['max_payload'] = max(obs['max_payload'], dg[1])
                            order_log.append(tag)
                            if mode == 'echo':
                                obs['echo_requests'] = obs.get('echo_requests', 0) + 1
                                if isinstance(y, BaseException):
                                    mech = 'socket/lost-response' if isinstance(y, TimeoutError) else 'socket/unexpected-error'
                                    viol.append({'mech': mech, 'msg': f'echo of {spec!r} got {y!r}'[:300]})
                                elif type(y) is not type(payload) or targets.digest(y) != dg:
                                    viol.append({'mech': 'socket/response-not-intact', 'msg': f'echo of {spec!r} ({type(payload).__name__}) came back as {type(y).__name__} {str(y)[:60]!r}'})
                            elif mode == 'raw':
                                if not isinstance(y, tuple) or tuple(y) != dg:
                                    viol.append({'mech': 'socket/payload-corrupted', 'msg': f'raw payload {spec!r}: handler saw {y!r}, sent {dg!r}'[:300]})
                            elif fail:
                                obs['failing_requests'] += 1
                                ecls = targets.handler_exc_class(fail)
                                obs['handler_exception_classes'] = obs.get('handler_exception_classes', 0) + (1 if fail not in seen_excs else 0)
                                seen_excs.add(fail)
                                if type(y) is not ecls or tuple(y.args) != (tag,):
                                    mech = 'socket/response-to-wrong-request' if isinstance(y, tuple) or (type(y) is ecls and y.args) else 'socket/wrong-error'
                                    if isinstance(y, TimeoutError) and not y.args:
                                        mech = 'socket/handler-error-never-delivered'
                                    viol.append({'mech': mech, 'msg': f'request {tag} (handler raises {fail}({tag})) got {y!r}'[:300]})
                                elif not (is_remote_exception(y) and 'SITE-MARK-C18' in get_remote_traceback(y)):
                                    viol.append({'mech': 'socket/remote-traceback-lost', 'msg': f'request {tag}: {y!r} lacks the handler traceback'})
                            else:
                                if isinstance(y, BaseException):
                                    mech = 'socket/lost-response' if isinstance(y, TimeoutError) or type(y).__name__ == 'TimeoutError' else 'socket/unexpected-error'
                                    viol.append({'mech': mech, 'msg': f'request {tag} payload {spec!r} got {y!r}'[:300]})
                                elif not isinstance(y, tuple) or tuple(y[0]) != tag:
                                    viol.append({'mech': 'socket/response-to-wrong-request', 'msg': f'request {tag} received the response {y!r}'[:300]})
                                elif tuple(y[1]) != dg:
                                    viol.append({'mech': 'socket/payload-corrupted', 'msg': f'request {tag} payload {spec!r}: handler saw {y[1]!r}, sent {dg!r}'[:300]})

                ths = [threading.Thread(target=requester, args=(c,), name=f'requester-{c}') for c in range(nreq)]
                for t in ths:
                    t.start()
                for t in ths:
                    t.join()
                if client.request('/noarg', response_timeout=30) != 'noarg-ok':
                    viol.append({'mech': 'socket/no-data-route', 'msg': 'route without data failed'})
            client.request('/shutdown', response_timeout=0)

    try:
        watch.run_bounded(lifetime, BOUND, 'socket client lifetime')
    except watch.Hang as h:
        viol.append({'mech': 'socket/hang', 'msg': f'client lifetime did not finish ({obs["requests"]} requests answered); stacks stable', 'stacks': h.stacks})
        try:
            srv.kill()
        except Exception:
            pass
        shutil.rmtree(d, ignore_errors=True)
        return {'violations': viol, 'obs': obs, 'exit_after': True, 'fuzz': fz.stats(), 'nontrivial': True, 'sig': repr(case)}
    except watch.Inconclusive as e:
        try:
            srv.kill()
        except Exception:
            pass
        return {'violations': viol, 'obs': obs, 'inconclusive': str(e), 'exit_after': True}
    except Exception as e:  # noqa: BLE001
        viol.append({'mech': 'socket/client-raised', 'msg': f'{e!r}'[:300]})
    finally:
        if adv:
            adv.uninstall()
    try:
        srv.join(20)
        if srv.is_alive():
            srv.kill()
    except Exception:
        pass
    shutil.rmtree(d, ignore_errors=True)
    st = fz.stats()
    nontrivial = case['connections'] >= 2 and nreq >= 2 and (obs['max_payload'] >= 65536 or obs['failing_requests'] > 0)
    return {'violations': viol[:6], 'obs': obs, 'fuzz': st if case['fuzz'] else None, 'nontrivial': nontrivial, 'exit_after': True,
            'sig': hash((case['connections'], nreq, case['big'], case['advid'], case['seed'])) & 0xFFFFFFFFFFFF,
            'sample': {'kind': 'socket', 'connections': case['connections'], 'requesters': nreq, 'requests': obs['requests'], 'failing': obs['failing_requests'],
                       'stream_items': obs['stream_items'], 'max_payload_bytes': obs['max_payload'], 'advid': case['advid'],
                       'id_reuses': adv.reuses if adv else None, 'site_hits': st.get('site_hits')}}


def run_pipe(case):
    import mpservice.multiprocessing as mm

    rng = random.Random(case['seed'])
    viol = []
    obs = {'pipe_cases': 1, 'pipe_objects': 0, 'max_pipe_object': 0}
    d = tempfile.mkdtemp(prefix='vf-c18p-')
    path = os.path.join(d, 'np', 'pipe')
    # a script of alternating bursts: each side sends a burst, the other receives it
    s_script, c_script = [], []
    s_expect, c_expect = [], []
    for step in range(case['steps']):
        sender = rng.choice(['server', 'client'])
        burst = rng.choice([1, 1, 3])
        for _ in range(burst):
            r = rng.random()
            if r < 0.3:
                spec = ['literal', rng.choice(LITERALS)]
            elif r < 0.7:
                spec = ['bytes', rng.choice([0, 1, 511, 512, 4095, 4096, 4097, 65536, 70000, 1_000_000]), rng.randrange(1 << 20)]
            else:
                spec = ['nested', rng.choice([0, 5, 3000])]
            dg = targets.digest(targets.make_payload(spec))
            obs['pipe_objects'] += 1
            obs['max_pipe_object'] = max(obs['max_pipe_object'], dg[1])
            if sender == 'server':
                s_script.append(['send', spec])
                c_script.append(['recv'])
                c_expect.append(dg)
            else:
                c_script.append(['send', spec])
                s_script.append(['recv'])
                s_expect.append(dg)
    bound = 60
    if case.get('late_reader'):
        late = case['late_reader']
        specs = [['literal', rng.choice(LITERALS)] for _ in range(case['last_objects'])]
        send_script = [['send', sp] for sp in specs]
        recv_script = [['sleep', case['late_by']]] + [['recv'] for _ in specs]
        exp = [targets.digest(targets.make_payload(sp)) for sp in specs]
        obs['pipe_objects'] += len(specs)
        if late == 'client':
            s_script, c_script, c_expect = send_script, recv_script, exp
        else:
            c_script, s_script, s_expect = send_script, recv_script, exp
        bound = 15
    if case.get('early_reader'):
        # "the two objects can be created in any order": one side exists and sits in its first recv before the other side is created at all
        early = case['early_reader']
        specs = [['literal', rng.choice(LITERALS)] for _ in range(2)]
        send_script = [['create-after', case['late_by']]] + [['send', sp] for sp in specs]
        recv_script = [['no-barrier']] + [['recv'] for _ in specs]
        exp = [targets.digest(targets.make_payload(sp)) for sp in specs]
        obs['pipe_objects'] += len(specs)
        if early == 'client':
            s_script, c_script, c_expect = send_script, recv_script, exp
        else:
            c_script, s_script, s_expect = send_script, recv_script, exp
        bound = 15
    ps = mm.Process(target=targets.c18_pipe_peer, args=(path, 'server', s_script))
    pc = mm.Process(target=targets.c18_pipe_peer, args=(path, 'client', c_script))
    ps.start()
    pc.start()

    def fin():
        return ps.result(), pc.result()

    try:
        s_got, c_got = watch.run_bounded(fin, bound, 'pipe exchange')
    except watch.Hang as h:
        peers = {}
        for role in ('server', 'client'):
            try:
                peers[role] = open(os.path.join(d, f'{role}.stacks')).read()[-3000:]
            except OSError as e:
                peers[role] = f'(no peer log: {e!r})'
        mech = 'pipe/hang'
        msg = f'scripted pipe exchange did not finish; alive: server={ps.is_alive()} client={pc.is_alive()}'
        for sender, receiver in (('server', 'client'), ('client', 'server')):
            rl = peers[receiver]
            # the receiver's log is written by a 40 s faulthandler timer; with the short bound of the directed case it may not have fired yet
            stuck_opening = '_get_reader' in rl or (case.get('late_reader') == receiver and 'recv' not in rl)
            if 'script finished' in peers[sender] and 'script finished' not in rl and stuck_opening and not any('recv' in ln for ln in rl.splitlines() if 'done' in ln):
                # known finding: everything the sender put into the FIFO is discarded by the kernel when the sender, the only process that has
                # the FIFO open, goes away; the receiver then blocks in open() for ever
                mech = 'pipe/objects-lost-when-sender-ends-before-receiver-first-recv'
                msg = (f'the {sender} sent its last {sum(1 for st in (s_script if sender == "server" else c_script) if st[0] == "send")} object(s) and ended; the {receiver}, which had not '
                       f'called recv before, never received them and blocks in _Pipe._get_reader (open of the FIFO for reading)')
        viol.append({'mech': mech, 'msg': msg, 'stacks': h.stacks, 'peer_logs': peers,
                     'scripts': {'server': [st[0] for st in s_script], 'client': [st[0] for st in c_script]}})
        for p in (ps, pc):
            try:
                p.kill()
            except Exception:
                pass
        shutil.rmtree(d, ignore_errors=True)
        return {'violations': viol, 'obs': obs, 'exit_after': True, 'nontrivial': True, 'sig': repr(case)}
    except Exception as e:  # noqa: BLE001
        viol.append({'mech': 'pipe/peer-raised', 'msg': f'{e!r}'[:300]})
        shutil.rmtree(d, ignore_errors=True)
        return {'violations': viol, 'obs': obs, 'exit_after': True, 'nontrivial': True, 'sig': repr(case)}
    shutil.rmtree(d, ignore_errors=True)
    if [tuple(x) for x in s_got] != s_expect:
        viol.append({'mech': 'pipe/objects-differ', 'msg': f'server side received {s_got[:4]!r}..., expected {s_expect[:4]!r}...'})
    if [tuple(x) for x in c_got] != c_expect:
        viol.append({'mech': 'pipe/objects-differ', 'msg': f'client side received {c_got[:4]!r}..., expected {c_expect[:4]!r}...'})
    return {'violations': viol, 'obs': obs, 'nontrivial': obs['max_pipe_object'] > 4096, 'sig': hash(('pipe', case['seed'])) & 0xFFFFFFFFFFFF, 'exit_after': True,
            'sample': {'kind': 'pipe', 'objects': obs['pipe_objects'], 'largest_bytes': obs['max_pipe_object'], 'server_received': len(s_got), 'client_received': len(c_got)}}


def run_socket_poison(case):
    """One request that cannot be transported (its payload, or the handler's response, cannot be pickled) among ordinary ones on the same
    connection(s): that request must end with an error in bounded time, and every other request must still get its own response."""
    import mpservice.multiprocessing as mm
    import mpservice.socket as MS

    viol = []
    obs = {'socket_cases': 1, 'poison_cases': 1, 'requests': 0, 'failing_requests': 0, 'bytes_sent': 0}
    d = tempfile.mkdtemp(prefix='vf-c18-')
    path = os.path.join(d, 'sock')
    srv = mm.Process(target=targets.c18_server, args=(path,))
    srv.start()
    box = {}

    def lifetime():
        with MS.SocketClient(num_connections=case['connections'], connection_timeout=30, path=path) as client:
            for rd in range(case['rounds']):
                for i in range(3):
                    y = client.request('/echo', ('before', rd, i), response_timeout=20)
                    obs['requests'] += 1
                    if y != ('before', rd, i):
                        viol.append({'mech': 'socket/wrong-response', 'msg': f'/echo gave {y!r}'})
                        return
                t0 = time.monotonic()
                try:
                    if case['what'] == 'response':
                        client.request('/unpicklable', rd, response_timeout=4)
                    elif case['what'] == 'payload':
                        client.request('/echo', (rd, threading.Lock()), response_timeout=4)
                    elif case['what'] == 'unloadable-payload':
                        client.request('/echo', (rd, targets.Unloadable('runtime')), response_timeout=4)  # pickles here, cannot be rebuilt by the server
                    elif case['what'] == 'unloadable-response':
                        client.request('/unloadable', rd, response_timeout=4)
                    else:
                        deep = []
                        for _ in range(100_000):
                            deep = [deep]
                        client.request('/echo', deep, response_timeout=4)  # pickling recurses too deep
                    box.setdefault('poison_outcome', []).append('returned')
                except Exception as e:  # noqa: BLE001
                    box.setdefault('poison_outcome', []).append(type(e).__name__)
                    obs['failing_requests'] += 1
                box['poison_s'] = max(box.get('poison_s', 0), time.monotonic() - t0)
                # every connection is used again
                for i in range(3 * case['connections']):
                    try:
                        y = client.request('/echo', ('after', rd, i), response_timeout=6)
                    except Exception as e:  # noqa: BLE001
                        viol.append({'mech': 'socket/later-request-unanswered-after-untransportable-' + case['what'],
                                     'msg': f'after a request whose {case["what"]} cannot be pickled ended with {box["poison_outcome"][-1]}, request #{i} on the same client '
                                            f'({case["connections"]} connection(s)) got {e!r} instead of its response'})
                        return
                    obs['requests'] += 1
                    if y != ('after', rd, i):
                        viol.append({'mech': 'socket/wrong-response', 'msg': f'/echo gave {y!r} for {("after", rd, i)!r}'})
                        return
            box['t_exit'] = time.monotonic()
        box['exit_s'] = time.monotonic() - box['t_exit']

    try:
        watch.run_bounded(lifetime, 100, 'socket client with an untransportable request')
    except watch.Hang as h:
        viol.append({'mech': 'socket/hang', 'msg': h.what + f' ({case["what"]})', 'stacks': h.stacks})
    except watch.Inconclusive as e:
        return {'violations': viol, 'obs': obs, 'inconclusive': str(e), 'exit_after': True}
    finally:
        try:
            srv.kill()
        except Exception:
            pass
        shutil.rmtree(d, ignore_errors=True)
    if not viol and box.get('exit_s', 0) > 20:
        viol.append({'mech': 'socket/client-exit-waits-for-untransportable-request', 'msg': f'leaving the client took {box["exit_s"]:.1f} s after a request whose {case["what"]} cannot be pickled'})
    return {'violations': viol[:2], 'obs': obs, 'nontrivial': True, 'sig': repr((case['what'], case['connections'])), 'exit_after': True,
            'sample': {'kind': 'socket-poison', 'what': case['what'], 'connections': case['connections'], 'poison_outcomes': box.get('poison_outcome'), 'requests': obs['requests']}}


def run_socket_stream_gaps(case):
    """stream() over an input iterator that pauses for about the stream's internal polling interval (0.1 s) before its last elements: the
    consumer's wait times out, and the feeder delivers the tail and finishes right then.  Every element must still come out, in order."""
    import mpservice.multiprocessing as mm
    import mpservice.socket as MS

    rng = random.Random(case['seed'])
    viol = []
    obs = {'socket_cases': 1, 'gap_streams': 0, 'requests': 0, 'stream_items': 0, 'bytes_sent': 0}
    d = tempfile.mkdtemp(prefix='vf-c18-')
    path = os.path.join(d, 'sock')
    srv = mm.Process(target=targets.c18_server, args=(path,))
    srv.start()
    fz = schedfuzz.SchedFuzz(seed=case['seed'], p=0.0)
    # the consumer is slow between noticing the empty queue and looking at the feeder's state
    fz.add_site(MS.SocketClient.stream, 'if t.done():', prob=1.0, delay=0.03, where='before', name='stream-consumer-after-empty-poll')

    def lifetime():
        with MS.SocketClient(num_connections=1, connection_timeout=30, path=path) as client:
            with fz:
                for rd in range(case['streams']):
                    gap = round(rng.uniform(0.104, 0.122), 4)
                    head, tail = rng.choice([1, 3]), rng.choice([1, 2])

                    def gen():
                        for i in range(head):
                            yield ((rd, i), 0, False, b'h')
                        time.sleep(gap)
                        for i in range(head, head + tail):
                            yield ((rd, i), 0, False, b't')

                    got = []
                    try:
                        for x, y in client.stream('/tagged', gen(), return_x=True):
                            got.append(tuple(y[0]))
                    except Exception as e:  # noqa: BLE001
                        viol.append({'mech': 'socket/stream-ends-early-when-feeder-finishes-after-an-empty-poll', 'msg': f'stream over an input that pauses {gap}s before its last {tail} element(s): '
                                     f'raised {e!r} after {len(got)} of {head + tail} outputs'[:400]})
                        return
                    obs['gap_streams'] += 1
                    obs['stream_items'] += len(got)
                    if got != [(rd, i) for i in range(head + tail)]:
                        viol.append({'mech': 'socket/stream-count', 'msg': f'stream over an input that pauses {gap}s before its last {tail} element(s) yielded {got!r}'})
                        return

    try:
        watch.run_bounded(lifetime, 100, 'socket client streams with gaps')
    except watch.Hang as h:
        viol.append({'mech': 'socket/hang', 'msg': h.what, 'stacks': h.stacks})
    except watch.Inconclusive as e:
        return {'violations': viol, 'obs': obs, 'inconclusive': str(e), 'exit_after': True}
    finally:
        try:
            srv.kill()
        except Exception:
            pass
        shutil.rmtree(d, ignore_errors=True)
    st = fz.stats()
    return {'violations': viol[:2], 'obs': obs, 'nontrivial': True, 'sig': repr(('gaps', case['seed'])), 'exit_after': True, 'fuzz': st,
            'sample': {'kind': 'socket-stream-gaps', 'streams': obs['gap_streams'], 'site_hits': st.get('site_hits')}}


def run_case(case):
    if case['kind'] == 'socket':
        return run_socket(case)
    if case['kind'] == 'socket-stream-gaps':
        return run_socket_stream_gaps(case)
    if case['kind'] == 'socket-poison':
        return run_socket_poison(case)
    return run_pipe(case)


def decide_inconclusive(obs, results, cases):
    if obs.get('requests', 0) == 0 or obs.get('failing_requests', 0) == 0 or obs.get('pipe_objects', 0) == 0 or obs.get('stream_items', 0) == 0:
        return 'no socket request / failing request / stream item / pipe object was observed'
    return None


RULE = RULE + '; handlers raise 12 exception classes; /echo requests incl. surrogate-escaped strings and str/bytes subclasses; TCP transport; failing stream elements; tiny backlogs; late-reader and early-reader pipe cases; a request whose payload or response cannot be pickled among ordinary requests on the same connections; streams whose input pauses for about the 0.1 s polling interval before its last elements, the consumer delayed after its empty poll'
