"""C08 — bounded look-ahead (pulled - received) and bounded concurrency, at every instant."""
from __future__ import annotations

import asyncio
import concurrent.futures
import itertools
import os
import random
import threading
import time

from vlib import gates, schedfuzz, watch
from vlib.targets import Boom

PROPERTY = 'C08'
LEVEL = 'exploration'
RULE = ('configurations = operator {fifo_stream(capacity), parmap thread/process(concurrency), ParmapperAsync(concurrency), buffer(n)} x '
        'size 1-8 x speed profile {slow consumer, slow workers, slow source, all fast, bursty} x length {50..2000, unbounded count() '
        'closed after k}; the invariant pulled-received <= bound and running <= concurrency is evaluated under one lock at every pull / '
        'call-entry event, in the thread causing it; non-trivial = the run reached gap >= bound-1 (extreme state approached); '
        'distinct = distinct (operator, size, profile, length, seed); async-stream twins (AsyncStream.parmap thread/async-func, AsyncStream.buffer); a long-stall profile (consumer silent for 2.25 s, 1.12 s, 0.13 s); the same operator object iterated again right after an iteration left early (close / GC / worker failure) with calls in flight')
ASSUMPTIONS = ['"handed to the consumer" is counted by the consuming thread right after the generator yields, before it asks for the next element',
               'for process executors the number of running calls is computed from (start, end) CLOCK_MONOTONIC intervals reported by the children']
CASE_TIMEOUT = 120
PARALLEL = 14
GROUP = 2


class CountingIter:
    def __init__(self, it, ledger, pause=None):
        self.it = iter(it)
        self.ledger = ledger
        self.pause = pause
        self.k = 0

    def __iter__(self):
        return self

    def __next__(self):
        if self.pause:
            p = self.pause(self.k)
            if p:
                time.sleep(p)
        x = next(self.it)
        self.k += 1
        self.ledger.pull()
        return x


def gen_cases(tier, seed):
    rng = random.Random(seed)
    cases = []
    profiles = ['slow-consumer', 'slow-worker', 'slow-source', 'fast', 'bursty', 'long-stall']
    reps = 1 if tier == 'quick' else 12
    for rep in range(reps):
        for op in ('fifo', 'parmap-thread', 'buffer', 'parmap-async', 'aparmap-thread', 'aparmap-async', 'abuffer'):
            for size in ([1, 2, 3, 6] if tier == 'quick' else [1, 2, 3, 4, 6, 8]):
                for prof in profiles:
                    if op in ('buffer', 'abuffer') and prof == 'slow-worker':
                        continue
                    if op.startswith('a') and prof == 'bursty' and tier == 'quick':
                        continue
                    if prof == 'long-stall' and tier == 'quick' and size not in (1, 3):
                        continue
                    length = rng.choice([50, 200, 600] if tier == 'quick' else [50, 200, 1000, 2000])
                    unbounded = rng.random() < 0.3
                    cases.append({'op': op, 'size': size, 'profile': prof, 'length': length, 'unbounded': unbounded,
                                  'fuzz': rng.random() < 0.6, 'seed': rng.randrange(1 << 30)})
    # elements that are exception objects, slow consumer: the bound does not depend on what the elements are
    for op in ('buffer', 'abuffer', 'parmap-thread'):
        for size in (1, 3):
            cases.append({'op': op, 'size': size, 'profile': 'slow-consumer', 'length': 200, 'unbounded': size == 3, 'elem': 'exc',
                          'fuzz': False, 'seed': rng.randrange(1 << 30)})
    for i in range(6 if tier == 'quick' else 90):
        # the first three always keep every worker process busy (slow workers), so that an extra process shows as an extra overlapping call
        prof = 'slow-worker' if i % 6 < 3 else rng.choice(['slow-consumer', 'fast', 'slow-worker'])
        cases.append({'op': 'parmap-process', 'size': [1, 2, 3][i % 3], 'profile': prof,
                      'length': rng.choice([30, 80]), 'unbounded': False, 'fuzz': False, 'seed': rng.randrange(1 << 30)})
    # the same operator object iterated again right after an iteration that was left early (closed / failed) with calls in flight:
    # the bound holds across the two iterations, not only inside each
    i = 0
    for op in ('parmap-thread', 'aparmap-thread', 'parmap-process'):
        for how in ('close', 'worker-raises', 'gc'):
            for size in ((2,) if tier == 'quick' else (1, 2, 4)):
                for rep in range(1 if tier == 'quick' else 3):
                    cases.append({'op': op, 'scenario': 'reiterate', 'how': how, 'size': size, 'seed': rng.randrange(1 << 30), 'fuzz': False})
    return cases


def proc_logged(x):
    """x = (i, sleep, fail, log path): enter/leave events go to an O_APPEND log with the system-wide monotonic clock."""
    i, dur, fail, path = x
    fd = os.open(path, os.O_WRONLY | os.O_APPEND | os.O_CREAT)
    try:
        os.write(fd, f'E {i} {time.monotonic()!r}\n'.encode())
        try:
            time.sleep(dur)
            if fail:
                raise Boom(i)
            return i
        finally:
            os.write(fd, f'L {i} {time.monotonic()!r}\n'.encode())
    finally:
        os.close(fd)


def _reiterate(case):
    import gc
    import tempfile

    import mpservice.streamer._streamer as S
    import mpservice.streamer._streamer_async as SA

    op, size, how = case['op'], case['size'], case['how']
    n = 4 * size + 6
    slow = 0.25
    led = gates.Ledger(running_bound=size)
    viol = []
    state = {'iter': 0}
    tmp = tempfile.mkdtemp(prefix='vf-c08-')
    path = os.path.join(tmp, 'calls.log')

    def work(x):
        led.enter(x)
        try:
            time.sleep(0.001 if x == 0 else slow)
            if how == 'worker-raises' and x == 1 and state['iter'] == 1:
                raise Boom(x)
            return x
        finally:
            led.leave(x)

    def first_items():
        return [(i, 0.001 if i == 0 else slow, how == 'worker-raises' and i == 1, path) for i in range(n)]

    def second_items():
        return [(i, 0.05, False, path) for i in range(n)]

    def body():
        if op == 'parmap-thread':
            st = S.Stream(list(range(n))).parmap(work, executor='thread', concurrency=size)
        elif op == 'parmap-process':
            src = {'items': first_items()}

            class Src:
                def __iter__(self):
                    return iter(src['items'])

            st = S.Stream(Src()).parmap(proc_logged, executor='process', concurrency=size)
        if op in ('parmap-thread', 'parmap-process'):
            state['iter'] = 1
            it = iter(st)
            try:
                next(it)
                if how == 'worker-raises':
                    for _ in it:
                        pass
            except Boom:
                pass
            if how == 'gc':
                del it
                gc.collect()
            else:
                it.close()
            state['iter'] = 2
            if op == 'parmap-process':
                src['items'] = second_items()
            return len(list(st))

        async def main():
            async def asrc():
                for i in range(n):
                    yield i

            class ASrc:
                def __aiter__(self):
                    return asrc()

            st = SA.AsyncStream(ASrc()).parmap(work, executor='thread', concurrency=size)
            state['iter'] = 1
            ait = st.__aiter__()
            try:
                await ait.__anext__()
                if how == 'worker-raises':
                    async for _ in ait:
                        pass
            except Boom:
                pass
            if how == 'gc':
                del ait
                gc.collect()
                await asyncio.sleep(0)
            else:
                await ait.aclose()
            state['iter'] = 2
            k = 0
            async for _ in st:
                k += 1
            return k

        return asyncio.run(main())

    try:
        k = watch.run_bounded(body, 60, f'{op} re-iteration')
    except watch.Hang as h:
        viol.append({'mech': f'{op}/hang', 'msg': f're-iteration after {how} did not finish', 'stacks': h.stacks})
        return {'violations': viol, 'obs': {}, 'exit_after': True}
    max_running = led.max_running
    if op == 'parmap-process':
        time.sleep(slow + 0.1)
        evs = []
        try:
            for line in open(path):
                kind, _, t = line.split()
                evs.append((float(t), 1 if kind == 'E' else -1))
        except FileNotFoundError:
            pass
        cur = max_running = 0
        for _, d in sorted(evs, key=lambda e: (e[0], e[1])):
            cur += d
            max_running = max(max_running, cur)
    import shutil

    shutil.rmtree(tmp, ignore_errors=True)
    if max_running > size:
        viol.append({'mech': f'{op}/concurrency-exceeded', 'msg': f'{max_running} calls of the worker function overlapped with concurrency {size} when the stream was '
                     f'iterated again right after an iteration ended by {how} with calls in flight'})
    if k != n:
        viol.append({'mech': f'{op}/reiteration-wrong-length', 'msg': f'second iteration gave {k} of {n} elements'})
    obs = {'runs': 1, 'reiterate_runs': 1, 'max_running_minus_conc': max_running - size}
    return {'violations': viol, 'obs': obs, 'sig': hash(('reiterate', op, size, how)) & 0xFFFFFFFFFFFF, 'nontrivial': max_running >= size,
            'sample': {'op': op, 'scenario': 'reiterate', 'how': how, 'concurrency': size, 'max_running': max_running, 'second_iteration_outputs': k}}


def proc_timed(x):
    t0 = time.monotonic()
    if x[1]:
        time.sleep(x[1])
    return (x[0], t0, time.monotonic())


def run_case(case):
    if case.get('scenario') == 'reiterate':
        return _reiterate(case)
    import mpservice.streamer._streamer as S
    import mpservice._queues as Q

    rng = random.Random(case['seed'])
    op, size, prof, n = case['op'], case['size'], case['profile'], case['length']
    if op in ('fifo',):
        bound, conc = size + 3, None
    elif op in ('parmap-thread', 'parmap-process', 'parmap-async', 'aparmap-thread', 'aparmap-async'):
        bound, conc = 2 * size + 3, size
    else:
        bound, conc = size + 2, None
    is_async_stream = op in ('aparmap-thread', 'aparmap-async', 'abuffer')
    led = gates.Ledger(gap_bound=bound, running_bound=conc)
    cons_pause = None
    work_sleep = 0.0
    src_pause = None
    if prof == 'slow-consumer':
        cons_pause = lambda k: 0.003  # noqa: E731
    elif prof == 'slow-worker':
        work_sleep = 0.004 if op != 'parmap-process' else 0.012
    elif prof == 'slow-source':
        src_pause = lambda k: 0.002  # noqa: E731
    elif prof == 'long-stall':
        # the consumer stops pulling for longer than the usual polling constants (0.1 s, 1 s) while everything upstream is full
        cons_pause = lambda k: (2.25 if k == 3 else (1.12 if k == 6 else (0.13 if k == 9 else 0)))  # noqa: E731  (during a stall the consumer holds nothing, so one extra element still fits the bound: stall for two polling periods)
    elif prof == 'bursty':
        cons_pause = lambda k: 0.02 if k % 17 == 0 else 0  # noqa: E731
        work_sleep = 0.0005
    if prof in ('slow-consumer', 'slow-worker', 'slow-source'):
        n = min(n, 150)
    base = itertools.count() if case['unbounded'] else range(n)
    take = n if not case['unbounded'] else min(n, 120)
    proc_items = None
    if op == 'parmap-process':
        base = [(i, work_sleep) for i in range(n)]
    if case.get('elem') == 'exc':
        # the elements are exception OBJECTS (what parmap(return_exceptions=True) emits during a failure storm): ordinary data for a buffer
        base = (ValueError('element', i) if i % 4 else KeyboardInterrupt('element', i) for i in base)
    src = CountingIter(base, led, src_pause)
    viol = []
    proc_results = []

    def work(x):
        led.enter(x)
        try:
            if work_sleep:
                time.sleep(work_sleep)
            return x
        finally:
            led.leave(x)

    async def awork(x):
        led.enter(x)
        try:
            await asyncio.sleep(work_sleep)
            return x
        finally:
            led.leave(x)

    if op == 'fifo':
        pool = concurrent.futures.ThreadPoolExecutor(4, thread_name_prefix='vf-pool')

        def func(x, **kw):
            return pool.submit(work, x)

        it = S.fifo_stream(src, func, capacity=size)
    elif op == 'parmap-thread':
        pool = None
        it = iter(S.Stream(src).parmap(work, executor='thread', concurrency=size))
    elif op == 'parmap-process':
        pool = None
        it = iter(S.Stream(src).parmap(proc_timed, executor='process', concurrency=size))
    elif op == 'parmap-async':
        pool = None
        it = iter(S.Stream(src).parmap(awork, concurrency=size))
    elif is_async_stream:
        pool = None
        it = None
    else:
        pool = None
        if case['seed'] % 3 == 0:
            # the class used directly with its optional external stop event (never set here)
            it = iter(S.Buffer(src, size, to_stop=threading.Event()))
        else:
            it = iter(S.Stream(src).buffer(size))

    fz = schedfuzz.SchedFuzz(seed=case['seed'], p=0.02) if case['fuzz'] else schedfuzz.NullFuzz()
    fz.add(Q.SingleLane.put, Q.SingleLane.get, S.fifo_stream, S.Buffer._run_worker, S.Buffer.__iter__)

    def abody():
        import mpservice.streamer._streamer_async as SA

        async def asrc():
            for x in src:
                yield x

        async def main():
            st = SA.AsyncStream(asrc())
            if op == 'aparmap-thread':
                st = st.parmap(work, executor='thread', concurrency=size)
            elif op == 'aparmap-async':
                st = st.parmap(awork, concurrency=size)
            else:
                st = st.buffer(size)
            ait = st.__aiter__()
            k = 0
            try:
                async for z in ait:
                    led.receive()
                    k += 1
                    if cons_pause:
                        p = cons_pause(k)
                        if p:
                            await asyncio.sleep(p)
                    if k >= take:
                        break
            finally:
                aclose = getattr(ait, 'aclose', None)
                if aclose:
                    await aclose()
            return k

        return asyncio.run(main())

    def body():
        if is_async_stream:
            return abody()
        k = 0
        try:
            for z in it:
                led.receive()
                if op == 'parmap-process':
                    proc_results.append(z)
                k += 1
                if cons_pause:
                    p = cons_pause(k)
                    if p:
                        time.sleep(p)
                if k >= take:
                    break
        finally:
            it.close()
        return k

    try:
        with fz:
            k = watch.run_bounded(body, 60, f'{op} run')
    except watch.Hang as h:
        viol.append({'mech': f'{op}/hang', 'msg': 'stream did not finish / close', 'stacks': h.stacks})
        return {'violations': viol, 'obs': {}, 'exit_after': True}
    finally:
        if pool:
            pool.shutdown(wait=False)
    max_running = led.max_running
    if op == 'parmap-process' and proc_results:
        evs = []
        for _, t0, t1 in proc_results:
            evs.append((t0, 1))
            evs.append((t1, -1))
        cur = 0
        max_running = 0
        for _, d in sorted(evs, key=lambda e: (e[0], e[1])):
            cur += d
            max_running = max(max_running, cur)
        if max_running > conc:
            viol.append({'mech': 'parmap-process/concurrency-exceeded', 'msg': f'{max_running} overlapping calls with concurrency {conc}'})
    for v in led.violations:
        if v[0] == 'gap':
            viol.append({'mech': f'{op}/lookahead-exceeded', 'msg': f'pulled-received = {v[1]} > bound {bound} (pulled {v[2]}, received {v[3]}); size {size}, profile {prof}'})
        else:
            mech = f'{op}/concurrency-exceeded'
            if op in ('parmap-async', 'aparmap-async'):
                # known finding: the async-function parmappers bound the running calls only by the look-ahead window
                # (2*concurrency+3), not by `concurrency`.  Anything beyond the window is a different violation.
                mech = ('parmap-async/concurrency-exceeded-within-lookahead-window' if led.max_running <= bound
                        else 'parmap-async/concurrency-exceeded-beyond-lookahead-window')
            viol.append({'mech': mech, 'msg': f'{led.max_running} calls running with concurrency {conc}; profile {prof}'})
        break
    if case['unbounded'] and led.pulled > take + bound:
        viol.append({'mech': f'{op}/unbounded-source-overpulled', 'msg': f'consumed {take}, pulled {led.pulled} > {take}+{bound}'})
    attained = led.max_gap == bound
    obs = {'runs': 1, 'pull_events': led.pulled, 'bound_attained': 1 if attained else 0, 'max_gap_minus_bound': led.max_gap - bound,
           f'attained_{op}': 1 if attained else 0, 'unbounded_runs': 1 if case['unbounded'] else 0,
           'max_running_minus_conc': (max_running - conc) if conc else -99}
    sig = hash((op, size, prof, n, case['unbounded'], case['seed'])) & 0xFFFFFFFFFFFF
    return {'violations': viol, 'obs': obs, 'sig': sig, 'nontrivial': led.max_gap >= bound - 1,
            'fuzz': fz.stats() if case['fuzz'] else None,
            'sample': {'op': op, 'size': size, 'profile': prof, 'length': n, 'unbounded': case['unbounded'], 'bound': bound,
                       'max_gap_observed': led.max_gap, 'bound_attained': attained, 'max_running': max_running, 'concurrency': conc,
                       'pulled': led.pulled, 'received': led.received}}


def decide_inconclusive(obs, results, cases):
    if obs.get('bound_attained', 0) == 0:
        return 'no run reached the stated bound: the extreme state was never observed'
    return None


RULE = RULE + '; Buffer constructed directly with an external stop event'
