"""C13 — hosted objects live exactly as long as some proxy refers to them."""
from __future__ import annotations

import gc
import os
import pickle
import random
import time

from vlib import watch

PROPERTY = 'C13'
LEVEL = 'exploration'
RULE = ('seeded histories (10-60 steps) over {create list/dict/Box/MemoryBlock, copy, pickle-and-hold, unpickle once (now / later, in any client process), '
        'store in / remove from / fetch from a hosted list, dict or Box, return via managed_*(), delete, pass to a child process as argument / through a '
        'queue (child exits with the proxy alive), agent process exits with live proxies, shared-memory write/read across processes} executed across the '
        'harness process and 2 persistent agent processes against one ServerProcess. After every step the server\'s ids and reference counts (debug_info) '
        'and /dev/shm entries are compared with a reference-count model. non-trivial = history with >=1 cross-process transfer and >=1 nesting step; '
        'distinct = distinct (seed, length); a hosted method handing out managed(x) repeatedly for the same x that lives on in the server (re-hosting under the same id; server-side ownership is part of the model)')
ASSUMPTIONS = ['comparison happens only after the quiescence protocol (gc in every client, one no-op call per live connection, up to 4 s of retries), so that '
               'legitimately delayed releases never raise an alarm',
               'model count = live proxies in all client processes + proxies held inside live hosted containers + pickles not yet deserialised']
CASE_TIMEOUT = 240
PARALLEL = 10
GROUP = 1
BOUND = 120


def gen_cases(tier, seed):
    rng = random.Random(seed)
    n = 36 if tier == 'quick' else 600
    return [{'steps': rng.choice([10, 25, 40, 60]), 'agents': 2, 'seed': rng.randrange(1 << 30)} for _ in range(n)]


class Model:
    def __init__(self):
        self.objs = {}  # oid -> {'type', 'holds': [oid], 'shm': name|None, 'keys': [...]}
        self.handles = {}  # (actor, handle) -> oid
        self.transit = []  # [bytes, oid]

    def _pyalive(self, alive):
        """Objects whose Python object exists in the server: the hosted ones, plus those owned by an existing Box (Box.own
        stays referenced by the Box even when it is not hosted at the moment, and keeps the proxies stored in it alive)."""
        py = set(alive)
        changed = True
        while changed:
            changed = False
            for o, d in self.objs.items():
                if o not in py and d.get('owner') in py:
                    py.add(o)
                    changed = True
        return py

    def count(self, oid, alive):
        n = sum(1 for o in self.handles.values() if o == oid) + sum(1 for _, o in self.transit if o == oid)
        for c in self._pyalive(alive):
            n += self.objs[c]['holds'].count(oid)
        return n

    def alive(self):
        alive = set(self.objs)
        changed = True
        while changed:
            changed = False
            for o in list(alive):
                if self.count(o, alive) == 0:
                    alive.discard(o)
                    changed = True
        return alive

    def expected(self):
        alive = self.alive()
        return {o: self.count(o, alive) for o in alive}

    def sweep(self):
        alive = self.alive()
        py = self._pyalive(alive)
        for o in list(self.objs):
            if o not in py:
                del self.objs[o]


class World:
    def __init__(self, case, viol, obs):
        import mpservice.multiprocessing as mm
        from mpservice.multiprocessing.server_process import ServerProcess
        from vlib import mgrtargets  # registers Box  # noqa: F401

        self.mm = mm
        self.viol = viol
        self.obs = obs
        self.rng = random.Random(case['seed'])
        self.manager = ServerProcess()
        self.manager.start()
        self.model = Model()
        self.reg = {}  # harness registry: handle -> proxy
        self.agents = {}
        self.hcount = 0
        self.nagents = case['agents']
        anchor = self.manager.list()
        self._register(0, 'anchor', anchor, 'list')
        anchor = None
        for k in range(1, self.nagents + 1):
            self.spawn_agent(k)

    # ---- plumbing
    def new_handle(self):
        self.hcount += 1
        return f'h{self.hcount}'

    def _register(self, actor, handle, proxy, typ, shm=None):
        oid = proxy._token.id
        self.reg[handle] = proxy
        self.model.handles[(actor, handle)] = oid
        if oid not in self.model.objs:
            self.model.objs[oid] = {'type': typ, 'holds': [], 'shm': shm, 'keys': []}
        return oid

    def spawn_agent(self, k):
        from vlib import mgrtargets

        cq, rq = self.mm.Queue(), self.mm.Queue()
        p = self.mm.Process(target=mgrtargets.agent_main, args=(cq, rq), name=f'agent-{k}')
        p.start()
        self.agents[k] = (p, cq, rq)
        # the agent's anchor: a hosted list of its own, delivered as a pickle
        a = self.manager.list()
        oid = a._token.id
        self.model.objs[oid] = {'type': 'list', 'holds': [], 'shm': None, 'keys': []}
        b = pickle.dumps(a)
        self.model.transit.append([b, oid])
        a = None
        self.agent(k, ('load', 'anchor', b))
        self.model.transit = [t for t in self.model.transit if t[0] is not b]
        self.model.handles[(k, 'anchor')] = oid

    def agent(self, k, cmd):
        p, cq, rq = self.agents[k]
        cq.put(cmd)
        r = rq.get(timeout=60)
        if r[0] == 'err':
            raise RuntimeError(f'agent {k} failed on {cmd[0]}: {r[1]}')
        return r[1]

    def call(self, actor, handle, method, args=(), kwargs=None, store_as=None):
        from vlib import mgrtargets

        if actor == 0:
            return mgrtargets.do_call(self.reg, handle, method, list(args), kwargs, store_as)
        return self.agent(actor, ('call', handle, method, list(args), kwargs, store_as))

    def handles_of(self, actor, types=None, exclude_anchor=True):
        out = []
        for (a, h), oid in self.model.handles.items():
            if a != actor or (exclude_anchor and h == 'anchor'):
                continue
            if types is None or self.model.objs[oid]['type'] in types:
                out.append(h)
        return out

    # ---- quiescence + comparison
    def quiesce(self):
        gc.collect()
        len(self.reg['anchor'])
        for k in self.agents:
            self.agent(k, ('gc',))
            self.agent(k, ('call', 'anchor', '__len__', [], None, None))

    def server_state(self):
        info = self.manager._debug_info()
        return {d['id']: d['refcount:'] for d in info}, {d['id']: d['type'] for d in info}

    def compare(self, step, what):
        exp = self.model.expected()
        deadline = time.monotonic() + 4.0
        tries = 0
        while True:
            self.quiesce()
            got, types = self.server_state()
            tries += 1
            shm_bad = []
            for oid, o in self.model.objs.items():
                if o['shm']:
                    there = os.path.exists('/dev/shm/' + o['shm'].lstrip('/'))
                    if there != (oid in exp):
                        shm_bad.append((o['shm'], there))
            if got == exp and not shm_bad:
                break
            if time.monotonic() > deadline:
                break
            time.sleep(0.05)
        self.obs['comparisons'] += 1
        self.obs['max_quiescence_tries'] = max(self.obs['max_quiescence_tries'], tries)
        if got != exp:
            leaked = {o: c for o, c in got.items() if o not in exp}
            missing = {o: c for o, c in exp.items() if o not in got}
            wrong = {o: (got[o], exp[o]) for o in exp if o in got and got[o] != exp[o]}
            if missing:
                mech = 'refcount/object-destroyed-while-referenced'
            elif leaked:
                mech = 'refcount/object-outlives-last-reference'
            elif any(g > e for g, e in wrong.values()):
                mech = 'refcount/count-too-high'
            else:
                mech = 'refcount/count-too-low'
            self.viol.append({'mech': f'{mech}/{what.split(":")[0]}', 'msg': f'after step {step} ({what}): server {{id: refcount}} differs from the model: hosted but unreferenced {leaked}, '
                              f'referenced but gone {missing}, (server, model) counts {wrong}; types {[types.get(o) for o in list(leaked) + list(wrong)]}'})
            return False
        if shm_bad:
            self.viol.append({'mech': f'refcount/shared-memory-block-leak/{what.split(":")[0]}', 'msg': f'after step {step} ({what}): /dev/shm entries disagree with the model (name, exists): {shm_bad}'})
            return False
        self.model.sweep()
        return True

    def close(self):
        for k in list(self.agents):
            try:
                p, cq, rq = self.agents[k]
                cq.put(('exit',))
                p.join(10)
                if p.is_alive():
                    p.kill()
            except Exception:
                pass
        self.reg.clear()
        gc.collect()
        try:
            self.manager.shutdown()
        except Exception:
            pass


OPS = ['create', 'create', 'copy', 'hold', 'unpickle', 'unpickle', 'nest', 'nest', 'unnest', 'fetch', 'drop', 'drop', 'child_arg', 'child_queue', 'managed',
       'managed_same', 'managed_same', 'agent_exit', 'shm', 'use', 'fork_child', 'raising_call', 'raising_call']


def step(w: World, i):
    """Execute one random applicable operation; returns a description or None if not applicable."""
    rng, m = w.rng, w.model
    op = rng.choice(OPS)
    actors = [0] + list(w.agents)
    if op == 'create':
        kind = rng.choice(['list', 'dict', 'box', 'mem'])
        h = w.new_handle()
        if kind == 'list':
            p = w.manager.list([1, 2, 3])
        elif kind == 'dict':
            p = w.manager.dict()
        elif kind == 'box':
            p = w.manager.Box(i)
        else:
            p = w.manager.MemoryBlock(64)
        shm = p.name if kind == 'mem' else None
        w._register(0, h, p, kind, shm)
        p = None
        w.obs['creates'] += 1
        return f'create:{kind}'
    if op == 'copy':
        a = rng.choice(actors)
        hs = w.handles_of(a)
        if not hs:
            return None
        h, h2 = rng.choice(hs), w.new_handle()
        oid = m.handles[(a, h)]
        if a == 0:
            w.reg[h2] = pickle.loads(pickle.dumps(w.reg[h]))
        else:
            b = w.agent(a, ('dumps', h))
            w.agent(a, ('load', h2, b))
        m.handles[(a, h2)] = oid
        return f'copy:actor{a}'
    if op == 'hold':
        a = rng.choice(actors)
        hs = w.handles_of(a)
        if not hs or len(m.transit) > 4:
            return None
        h = rng.choice(hs)
        oid = m.handles[(a, h)]
        b = pickle.dumps(w.reg[h]) if a == 0 else w.agent(a, ('dumps', h))
        m.transit.append([b, oid])
        w.obs['pickles_held'] += 1
        return f'hold:actor{a}'
    if op == 'unpickle':
        if not m.transit:
            return None
        b, oid = m.transit.pop(rng.randrange(len(m.transit)))
        a = rng.choice(actors)
        h = w.new_handle()
        if a == 0:
            w.reg[h] = pickle.loads(b)
        else:
            w.agent(a, ('load', h, b))
        m.handles[(a, h)] = oid
        w.obs['cross_process_transfers'] += 1
        return f'unpickle:actor{a}'
    if op in ('nest', 'unnest', 'fetch'):
        a = rng.choice(actors)
        conts = w.handles_of(a, types=('list', 'dict', 'box'))
        if not conts:
            return None
        hc = rng.choice(conts)
        coid = m.handles[(a, hc)]
        ctype = m.objs[coid]['type']
        if op == 'nest':
            items = [h for h in w.handles_of(a) if m.handles[(a, h)] != coid]
            if not items:
                return None
            hi = rng.choice(items)
            ioid = m.handles[(a, hi)]
            if ctype == 'list':
                r = w.call(a, hc, 'append', [('@H', hi)])
            elif ctype == 'dict':
                key = f'k{i}'
                r = w.call(a, hc, '__setitem__', [key, ('@H', hi)])
                m.objs[coid]['keys'].append((key, ioid))
            else:
                r = w.call(a, hc, 'keep', [('@H', hi)])
            if r[0] == 'exc':
                w.viol.append({'mech': 'refcount/live-proxy-unusable/nest', 'msg': f'storing a proxy in a hosted {ctype} raised {r[1]}'})
                return 'nest:failed'
            m.objs[coid]['holds'].append(ioid)
            w.obs['nestings'] += 1
            return f'nest:{ctype}'
        holds = m.objs[coid]['holds']
        if not holds:
            return None
        h2 = w.new_handle()
        if op == 'unnest':
            if ctype == 'list':
                # the model list is [1,2,3] + held proxies in order for lists created here; pop() removes the last element
                r = w.call(a, hc, 'pop', [], None, h2)
                if r[0] != 'proxy':
                    return 'unnest:last-element-not-a-proxy'  # e.g. anchor lists or plain ints: nothing to model
                ioid = r[1]
                if ioid not in holds:
                    w.viol.append({'mech': 'refcount/wrong-object-returned/unnest', 'msg': f'list.pop() returned a proxy to {ioid}, the list holds {holds}'})
                    return 'unnest:wrong'
                holds.reverse()
                holds.remove(ioid)
                holds.reverse()
            elif ctype == 'dict':
                key, ioid = m.objs[coid]['keys'].pop()
                r = w.call(a, hc, 'pop', [key], None, h2)
                if r[0] != 'proxy' or r[1] != ioid:
                    w.viol.append({'mech': 'refcount/wrong-object-returned/unnest', 'msg': f'dict.pop({key}) returned {r}, expected proxy to {ioid}'})
                    return 'unnest:wrong'
                holds.remove(ioid)
            else:
                r = w.call(a, hc, 'release', [], None, h2)
                if r[0] != 'proxy' or r[1] != holds[-1]:
                    w.viol.append({'mech': 'refcount/wrong-object-returned/unnest', 'msg': f'Box.release() returned {r}, expected proxy to {holds[-1]}'})
                    return 'unnest:wrong'
                ioid = holds.pop()
            m.handles[(a, h2)] = ioid
            return f'unnest:{ctype}'
        # fetch: a second proxy to a nested object; the container keeps its own
        if ctype == 'list':
            r = w.call(a, hc, '__getitem__', [-1], None, h2)
            if r[0] != 'proxy':
                return 'fetch:not-a-proxy'
            m.handles[(a, h2)] = r[1]
        elif ctype == 'dict':
            key, ioid = m.objs[coid]['keys'][-1]
            r = w.call(a, hc, '__getitem__', [key], None, h2)
            if r[0] != 'proxy' or r[1] != ioid:
                w.viol.append({'mech': 'refcount/wrong-object-returned/fetch', 'msg': f'dict[{key}] returned {r}, expected proxy to {ioid}'})
                return 'fetch:wrong'
            m.handles[(a, h2)] = ioid
        else:
            return None
        return f'fetch:{ctype}'
    if op == 'drop':
        a = rng.choice(actors)
        hs = w.handles_of(a)
        if not hs:
            return None
        h = rng.choice(hs)
        if a == 0:
            del w.reg[h]
        else:
            w.agent(a, ('drop', h))
        del m.handles[(a, h)]
        w.obs['drops'] += 1
        return f'drop:actor{a}'
    if op in ('child_arg', 'child_queue'):
        from vlib import mgrtargets

        hs = w.handles_of(0, types=('list', 'dict', 'box'))
        if not hs:
            return None
        h = rng.choice(hs)
        if op == 'child_arg':
            p = w.mm.Process(target=mgrtargets.child_via_arg, args=(w.reg[h],))
            p.start()
            if rng.random() < 0.5:
                # the sender drops its own proxy while the argument is still in transit (the child has not unpickled it yet): the
                # serialized proxy counts as a reference, the child must be able to use the object
                del w.reg[h]
                del m.handles[(0, h)]
                w.obs['drops'] += 1
                w.obs['dropped_while_in_transit'] = w.obs.get('dropped_while_in_transit', 0) + 1
                try:
                    r = p.result()
                except Exception as e:  # noqa: BLE001
                    w.viol.append({'mech': 'refcount/object-gone-while-proxy-in-transit', 'msg': f'a proxy passed as Process argument could not be used by the child after the sender dropped its own '
                                   f'proxy right after start(): {e!r}'[:400]})
                    r = None
            else:
                r = p.result()
        else:
            q = w.mm.Queue()
            q.put(w.reg[h])
            p = w.mm.Process(target=mgrtargets.child_via_queue, args=(q,))
            p.start()
            r = p.result()
            q = None
        p = None
        w.obs['cross_process_transfers'] += 1
        w.obs['children'] += 1
        return f'{op}:done'
    if op == 'raising_call':
        # a hosted method that raises, called with proxies as arguments (and then the proxy is possibly dropped): the failed call must not
        # leave a reference to its arguments behind
        a = rng.choice(actors)
        boxes = w.handles_of(a, types=('box',))
        others = w.handles_of(a)
        if not boxes or not others:
            return None
        hb, ha = rng.choice(boxes), rng.choice(others)
        r = w.call(a, hb, 'refuse', [('@H', ha), 5])
        if r[0] != 'exc' or r[1]['type'] != 'ValueError':
            w.viol.append({'mech': 'refcount/live-proxy-unusable/raising_call', 'msg': f'Box.refuse(proxy) through a proxy gave {str(r)[:200]}, expected ValueError'})
        w.obs['raising_calls_with_proxy_args'] = w.obs.get('raising_calls_with_proxy_args', 0) + 1
        if rng.random() < 0.5 and ha != hb:
            if a == 0:
                del w.reg[ha]
            else:
                w.agent(a, ('drop', ha))
            del m.handles[(a, ha)]
            w.obs['drops'] += 1
        return 'raising_call:done'
    if op == 'fork_child':
        # an agent forks (stdlib fork start method) a child that inherits all the agent's proxies, uses one and exits: nothing may be left behind
        ags = [a for a in w.agents if w.handles_of(a)]
        if not ags:
            return None
        a = rng.choice(ags)
        h = rng.choice(w.handles_of(a))
        ec = w.agent(a, ('fork-use', h))
        if ec != 0:
            w.viol.append({'mech': 'refcount/live-proxy-unusable/fork_child', 'msg': f'a child forked by agent {a} could not use an inherited proxy (exit code {ec})'})
        w.obs['forked_children'] = w.obs.get('forked_children', 0) + 1
        w.obs['children'] += 1
        return 'fork_child:done'
    if op == 'managed':
        a = rng.choice(actors)
        boxes = w.handles_of(a, types=('box',))
        if not boxes:
            return None
        hb, h2 = rng.choice(boxes), w.new_handle()
        meth, typ, arg = rng.choice([('make_list', 'list', 3), ('make_dict', 'dict', 2), ('make_box', 'box', 7)])
        r = w.call(a, hb, meth, [arg], None, h2)
        if r[0] != 'proxy':
            w.viol.append({'mech': 'refcount/managed-return-not-a-proxy', 'msg': f'Box.{meth} returned {r} instead of a live proxy'})
            return 'managed:wrong'
        m.handles[(a, h2)] = r[1]
        if r[1] not in m.objs:
            m.objs[r[1]] = {'type': typ, 'holds': [], 'shm': None, 'keys': []}
        w.obs['managed_returns'] += 1
        return f'managed:{typ}'
    if op == 'managed_same':
        # a hosted method returns managed(x) for an x that lives on inside the server: repeated calls (from any client process) must
        # add references to the same hosted object, not restart its count
        a = rng.choice(actors)
        boxes = w.handles_of(a, types=('box',))
        if not boxes:
            return None
        hb, h2 = rng.choice(boxes), w.new_handle()
        r = w.call(a, hb, 'share_own', [], None, h2)
        if r[0] != 'proxy':
            w.viol.append({'mech': 'refcount/managed-return-not-a-proxy', 'msg': f'Box.share_own returned {r} instead of a live proxy'})
            return 'managed_same:wrong'
        boid = m.handles[(a, hb)]
        prev = m.objs[boid].get('own_oid')
        if prev is not None and prev in m.alive() and r[1] != prev:
            w.viol.append({'mech': 'refcount/same-object-hosted-twice', 'msg': f'the same server-side object was handed out under a new id {r[1]} while {prev} is still hosted'})
            return 'managed_same:wrong'
        m.handles[(a, h2)] = r[1]
        if r[1] not in m.objs:
            m.objs[r[1]] = {'type': 'list', 'holds': [], 'shm': None, 'keys': []}
        m.objs[r[1]]['owner'] = boid
        m.objs[boid]['own_oid'] = r[1]
        w.obs['managed_returns'] += 1
        w.obs['same_object_rehosted'] = w.obs.get('same_object_rehosted', 0) + (1 if prev == r[1] else 0)
        return 'managed_same:list'
    if op == 'agent_exit':
        if w.rng.random() < 0.6:
            return None
        k = rng.choice(list(w.agents))
        p, cq, rq = w.agents[k]
        cq.put(('exit',))
        rq.get(timeout=60)
        p.result()
        for key in [key for key in m.handles if key[0] == k]:
            del m.handles[key]
        del w.agents[k]
        w.spawn_agent(k)
        w.obs['agent_exits'] += 1
        return f'agent_exit:agent{k}'
    if op == 'shm':
        hs = w.handles_of(0, types=('mem',))
        if not hs:
            return None
        h = rng.choice(hs)
        val = rng.randrange(1, 250)
        w.reg[h].buf[5] = val
        k = rng.choice(list(w.agents))
        b = pickle.dumps(w.reg[h])
        h2 = w.new_handle()
        m.transit.append([b, m.handles[(0, h)]])
        w.agent(k, ('load', h2, b))
        m.transit = [t for t in m.transit if t[0] is not b]
        m.handles[(k, h2)] = m.handles[(0, h)]
        got = w.agent(k, ('shm-read', h2, 8))
        if got[5] != val:
            w.viol.append({'mech': 'refcount/shared-memory-content', 'msg': f'agent read {got[5]} from the block, harness wrote {val}'})
        w.obs['cross_process_transfers'] += 1
        return 'shm:write-read'
    if op == 'use':
        # every live proxy must be usable
        a = rng.choice(actors)
        hs = w.handles_of(a, types=('list', 'dict', 'box'))
        for h in hs[:4]:
            typ = m.objs[m.handles[(a, h)]]['type']
            r = w.call(a, h, 'get' if typ == 'box' else '__len__')
            w.obs['liveness_probes'] += 1
            if r[0] != 'val':
                w.viol.append({'mech': 'refcount/live-proxy-unusable/use', 'msg': f'actor {a}: a live proxy to a hosted {typ} answered {r}'})
                return 'use:failed'
        return 'use:ok' if hs else None
    return None


def run_case(case):
    viol = []
    obs = {'histories': 1, 'steps': 0, 'comparisons': 0, 'max_quiescence_tries': 0, 'creates': 0, 'drops': 0, 'pickles_held': 0, 'cross_process_transfers': 0,
           'nestings': 0, 'children': 0, 'managed_returns': 0, 'agent_exits': 0, 'liveness_probes': 0}
    trace = []

    def body():
        w = World(case, viol, obs)
        try:
            if not w.compare(-1, 'setup'):
                return
            i = 0
            attempts = 0
            while i < case['steps'] and attempts < case['steps'] * 6:
                attempts += 1
                what = step(w, i)
                if what is None:
                    continue
                trace.append(what)
                obs['steps'] += 1
                i += 1
                if viol or not w.compare(i, what):
                    return
            # finally: drop everything the harness holds; only anchors and agent-held objects may remain
            for h in list(w.handles_of(0)):
                del w.reg[h]
                del w.model.handles[(0, h)]
            # a pickle that is never deserialised keeps its reference by design: deserialise each held pickle once, then drop the proxy
            while w.model.transit:
                b, oid = w.model.transit.pop()
                tmp = pickle.loads(b)
                tmp = None
            if not w.compare(i + 1, 'final-drop-all'):
                return
            if case['seed'] % 3 == 0:
                # last of all: a pickling that FAILS after the proxy's __reduce__ has run (the proxy travels together with something
                # unpicklable).  No serialized form exists afterwards, so nothing may count as a reference.
                fresh = w.manager.list([0])
                w._register(0, 'fp', fresh, 'list')
                fresh = None
                if not w.compare(i + 2, 'create:list'):
                    return
                try:
                    pickle.dumps([w.reg['fp'], lambda: 0])
                except Exception:  # noqa: BLE001
                    obs['failed_picklings'] = obs.get('failed_picklings', 0) + 1
                w.compare(i + 3, 'failed_pickle')
        finally:
            w.close()

    try:
        watch.run_bounded(body, BOUND, 'manager history')
    except watch.Hang as h:
        viol.append({'mech': 'refcount/hang', 'msg': f'history did not finish; last steps {trace[-5:]}', 'stacks': h.stacks})
        return {'violations': viol, 'obs': obs, 'exit_after': True, 'nontrivial': True, 'sig': repr(case)}
    except watch.Inconclusive as e:
        return {'violations': viol, 'obs': obs, 'inconclusive': str(e), 'exit_after': True}
    for v in viol:
        v['history_tail'] = trace[-12:]
    nontrivial = obs['cross_process_transfers'] > 0 and obs['nestings'] > 0
    return {'violations': viol[:3], 'obs': obs, 'nontrivial': nontrivial, 'sig': hash((case['seed'], case['steps'])) & 0xFFFFFFFFFFFF, 'exit_after': True,
            'sample': {'steps': obs['steps'], 'history_head': trace[:14], 'comparisons': obs['comparisons'], 'cross_process_transfers': obs['cross_process_transfers'],
                       'children': obs['children'], 'agent_exits': obs['agent_exits']}}


def decide_inconclusive(obs, results, cases):
    if obs.get('comparisons', 0) == 0 or obs.get('cross_process_transfers', 0) == 0 or obs.get('nestings', 0) == 0 or obs.get('children', 0) == 0:
        return 'no comparison / cross-process transfer / nesting / child step was observed'
    return None


RULE = RULE + '; sender drops its proxy while the argument is in transit to a new child; an agent forks a child (stdlib fork start method) that inherits all its proxies by memory, uses one and exits; a hosted method that raises, called with proxies as arguments'
