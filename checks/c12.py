"""C12 — Process and Thread objects report how their target really ended."""
from __future__ import annotations

import os
import random
import signal
import time

from vlib import targets, watch
from vlib.targets import norm_exc

PROPERTY = 'C12'
LEVEL = 'fault_enumeration'
RULE = ('enumeration: kind {Thread, Process} x ending {return of 7 value classes, raise of 16 exception classes incl. multi-argument / keyword-only / '
        'custom __reduce__ constructors and BaseExceptions, sys.exit(None|0|1|3|"bye"), terminate()} x first accessor {join, result, exception, done, '
        'exitcode, wait, as_completed} called right after start(); Process x signal {TERM, KILL, SEGV, ABRT, INT} x phase {before target, during, after '
        'the result was sent} x first accessor {join, exception, wait, as_completed}. After the first accessor every other accessor is called and the '
        'consistency table of DESIGN C12 is evaluated. non-trivial = ending other than a plain return of None; distinct = distinct case tuples; further endings: SIGHUP/USR1/QUIT/BUS/ALRM and unnamed real-time signals, a return value that cannot be pickled, os._exit; keyword arguments passed through a dict the caller keeps (half of the cases)')
ASSUMPTIONS = ['every accessor call is bounded by 20 s (typical: ms for threads, <1 s for processes) AND three identical stack samples => hang',
               'SIGTERM is treated as terminate() (success, None, exitcode -15) as the library documents; kill after the result was sent must leave the result intact',
               'SIGINT before the target started is only required to be consistent among accessors and bounded']
CASE_TIMEOUT = 120
PARALLEL = 14
BOUND = 20
EXHAUSTIVE = {'quick': False, 'thorough': True}

VALUES = [None, 0, False, 'str', [1, 'a'], {'k': [1, 2]}, ['__bytes__', 1_000_000]]
EXCS = [['ValueError', ['x']], ['KeyError', ['k']], ['Boom', ['a', 1]], ['Boom2', [1, 2]], ['OSError', [2, 'No such file']],
        ['ReduceExc', [7, 'detail']], ['KwOnlyExc', [], {'reason': 'why'}], ['AssertionError', []], ['KeyboardInterrupt', []],
        ['ZeroDivisionError', ['division by zero']], ['UnicodeDecodeError', ['utf-8', '__b__', 0, 1, 'bad']], ['FileNotFoundError', [2, 'nf', 'name']],
        ['RuntimeError', ['a', 'b', 'c']], ['StopIteration', [5]], ['TimeoutError', ['late']], ['ConnectionResetError', [104, 'reset']],
        # classes whose constructor rejects a lone str with something other than TypeError (validating / looking up / reading attributes)
        ['StatusError', [404]], ['CodeError', ['E2']], ['RespError', [503, 'busy']],
        # an exception object that is falsy (a collection-like error with no entries)
        ['ErrorList', []], ['ErrorList', ['e1', 'e2']]]
EXITS = [None, 0, 1, 3, 'bye', '', 0.0, [], False, True, {}, 256, 257, -1]  # only None and the integer 0 mean success (256 is 0 only for the OS)
ACCESSORS = ['join', 'result', 'exception', 'done', 'exitcode', 'wait', 'as_completed']


def gen_cases(tier, seed):
    rng = random.Random(seed)
    thr, prc, sig = [], [], []
    for kind, lst in (('thread', thr), ('process', prc)):
        for acc in ACCESSORS:
            if kind == 'thread' and acc == 'exitcode':
                continue
            for v in VALUES:
                lst.append({'kind': kind, 'ending': ['return', v], 'first': acc})
            for e in EXCS:
                lst.append({'kind': kind, 'ending': ['raise'] + e, 'first': acc})
            for c in EXITS:
                lst.append({'kind': kind, 'ending': ['exit', c], 'first': acc})
        if kind == 'process':
            for acc in ('join', 'result', 'wait'):
                lst.append({'kind': kind, 'ending': ['terminate'], 'first': acc})
    # timed accessors used first (the race between the caller's and the collector thread's waitpid)
    for acc in ('join-t', 'result-t', 'exception-t'):
        for rep in range(5 if tier == 'quick' else 12):
            sig.append({'kind': 'process', 'ending': ['signal', 'SIGKILL', 'before'], 'first': acc, 'rep': rep})
            sig.append({'kind': 'process', 'ending': ['signal', 'SIGKILL', 'during'], 'first': acc, 'rep': rep})
        prc.append({'kind': 'process', 'ending': ['return', 0], 'first': acc})
        prc.append({'kind': 'process', 'ending': ['raise', 'ValueError', ['x']], 'first': acc})
        thr.append({'kind': 'thread', 'ending': ['raise', 'KeyError', ['k']], 'first': acc})
        thr.append({'kind': 'thread', 'ending': ['return', 'str'], 'first': acc})
    for s in ('SIGTERM', 'SIGKILL', 'SIGSEGV', 'SIGABRT', 'SIGINT'):
        for phase in ('before', 'during', 'after'):
            for acc in ('join', 'exception', 'wait', 'as_completed'):
                sig.append({'kind': 'process', 'ending': ['signal', s, phase], 'first': acc})
    # less usual ways to die: other fatal signals incl. real-time ones without a name, a return value that cannot be sent back,
    # a hard exit without any report
    for s in ('SIGHUP', 'SIGUSR1', 'SIGQUIT', 'SIGBUS', 'SIGALRM', 'RT+3', 'RT+11'):
        for phase in ('during', 'before'):
            for acc in ('join', 'wait', 'exception'):
                sig.append({'kind': 'process', 'ending': ['signal', s, phase], 'first': acc})
    # killed while it is logging without pause (its log pipe is full; the kill lands in the middle of handing records to the parent)
    for s in ('SIGKILL', 'SIGTERM', 'SIGSEGV'):
        for size in (50, 9000, 300_000):
            for acc in ('join', 'wait', 'exception'):
                sig.append({'kind': 'process', 'ending': ['signal', s, 'logging', size], 'first': acc})
    for acc in ('join', 'result', 'exception', 'wait', 'as_completed'):
        prc.append({'kind': 'process', 'ending': ['return-unpicklable'], 'first': acc})
        prc.append({'kind': 'process', 'ending': ['os-exit', 7], 'first': acc})
        thr.append({'kind': 'thread', 'ending': ['return-unpicklable'], 'first': acc})
    for acc in ('join', 'result', 'exitcode'):
        prc.append({'kind': 'process', 'ending': ['no-target'], 'first': acc})
    # a value the child can pickle and the parent cannot rebuild: the child has exited with code 0, yet there is no value to give
    for acc in ('join', 'result', 'exception', 'wait'):
        prc.append({'kind': 'process', 'ending': ['return-unrebuildable'], 'first': acc})
    # an exception that the child can pickle and the parent cannot rebuild: the type cannot survive, but every accessor must still end, consistently
    for acc in ('wait', 'as_completed', 'join', 'exception'):
        prc.append({'kind': 'process', 'ending': ['raise-unrebuildable', 'TwoArgInit', [1, 2]], 'first': acc})
        thr.append({'kind': 'thread', 'ending': ['raise', 'TwoArgInit', [1, 2]], 'first': acc})
    for acc in ('join', 'result'):
        thr.append({'kind': 'thread', 'ending': ['no-target'], 'first': acc})
    # Thread: accessor used in the instant after start() (the Future must exist already)
    for acc in ('wait', 'as_completed', 'exception', 'result'):
        for i in range(6):
            thr.append({'kind': 'thread', 'ending': ['return', i], 'first': acc, 'immediate': True, 'delay_run': True})
    if tier == 'quick':
        rng.shuffle(prc)
        rng.shuffle(sig)
        must = [c for c in prc if c['ending'][0] in ('return-unpicklable', 'os-exit', 'no-target', 'raise-unrebuildable', 'return-unrebuildable')]
        rare = [c for c in sig if c['ending'][1] not in ('SIGTERM', 'SIGKILL', 'SIGSEGV', 'SIGABRT', 'SIGINT')]
        usual = [c for c in prc if c['ending'][0] not in ('return-unpicklable', 'os-exit', 'no-target', 'raise-unrebuildable', 'return-unrebuildable')]
        timed = [c for c in prc + sig if c['first'].endswith('-t')]
        logk = [c for c in sig if c['ending'][0] == 'signal' and c['ending'][2] == 'logging']
        sig = [c for c in sig if c not in logk]
        wide = [c for c in usual if c['ending'][0] == 'exit' and isinstance(c['ending'][1], int) and not isinstance(c['ending'][1], bool) and c['ending'][1] in (256, 257, -1)
                and c['first'] in ('join', 'exception')]
        wide += [c for c in usual + thr if c['ending'][:2] == ['raise', 'ErrorList'] and c['first'] in ('join', 'wait') and c not in wide]
        usual = [c for c in usual if c not in wide]
        cases = [c for c in thr if c not in wide] + wide + logk + [c for c in usual if c not in timed][:70] + must[:6] + [c for c in must[6:] if c['ending'][0] in ('no-target', 'raise-unrebuildable', 'return-unrebuildable')] + [c for c in sig if c not in rare and c not in timed][:34] + rare[:12] + timed
    else:
        cases = thr + prc + sig
    rng.shuffle(cases)
    return cases


def _signum(name):
    if name.startswith('RT+'):
        return signal.SIGRTMIN + int(name[3:])
    return int(getattr(signal, name))


def _real(v):
    if isinstance(v, list) and len(v) == 2 and v[0] == '__bytes__':
        return b'z' * v[1]
    return v


def _exc_args(e):
    args = [(b'\xff' if a == '__b__' else a) for a in e[1]]
    return args


def run_case(case):
    import mpservice.multiprocessing as mm
    import mpservice.threading as mt
    from mpservice.multiprocessing.remote_exception import get_remote_traceback, is_remote_exception

    viol = []
    ending = case['ending']
    kind = case['kind']
    obs = {'cases': 1, 'accessor_calls': 0, 'exceptions_checked': 0, 'tracebacks_checked': 0, 'signals_delivered': 0}
    is_proc = kind == 'process'
    ready = mm.Event() if is_proc else None
    spec = list(ending)
    if ending[0] in ('raise', 'raise-unrebuildable'):
        spec = ['raise', ending[1], _exc_args(ending[1:]), ending[3] if len(ending) > 3 else None]
    if ending[0] == 'terminate':
        spec = ['sleep', 30]
    if ending[0] == 'signal':
        spec = ['sleep', 30] if ending[2] != 'after' else ['linger', 'lingered', 30]
        if ending[2] == 'logging':
            spec = ['log-loop', ending[3]]
        if ending[1] == 'SIGINT' and ending[2] == 'before':
            # a SIGINT that arrives while the child interpreter is still starting can be swallowed by CPython itself;
            # the target then simply runs: keep it short, and require only consistency among the accessors
            spec = ['sleep', 1.5]
    fz = None
    if case.get('delay_run'):
        # the new thread is slow to reach run(): a legal schedule
        from vlib import schedfuzz

        fz = schedfuzz.SchedFuzz(seed=1, p=0.0)
        fz.add_site(mt.Thread.run, 'def run(self):', prob=1.0, delay=0.01, where='after', name='thread-run-first-line')
        fz.start()
    kept_kwargs = None
    if ending[0] == 'no-target':
        # nothing to run: the degenerate way to end; everything must report "returned None"
        w = mm.Process() if is_proc else mt.Thread()
    elif is_proc:
        if hash(repr((ending, case['first']))) % 2 == 0:
            # the caller builds the keyword arguments in a dict of its own and keeps it (a config object, a loop variable, ...)
            kept_kwargs = {'ready': ready}
            w = mm.Process(target=targets.c12_target, args=(spec,), kwargs=kept_kwargs)
            obs['caller_kwargs_touched'] = 0 if set(kept_kwargs) == {'ready'} else 1  # evidence only: not part of the statement
        else:
            w = mm.Process(target=targets.c12_target, args=(spec, ready))
    else:
        if hash(repr((ending, case['first']))) % 2 == 0:
            kept_kwargs = {'ready': None}
            w = mt.Thread(target=targets.c12_target, args=(spec,), kwargs=kept_kwargs)
        else:
            w = mt.Thread(target=targets.c12_target, args=(spec,))
    if ending[0] == 'signal' and ending[2] == 'logging':
        # the parent's handler for these records takes 1-20 ms per record (a file, a socket): the child is ahead of it
        import logging

        slow_s = 0.001 if ending[3] < 1000 else 0.02  # slow enough that the child, not the parent, waits: the log pipe stays full

        class _Slow(logging.Handler):
            def emit(self, record):
                time.sleep(slow_s)
                obs['log_records_handled'] = obs.get('log_records_handled', 0) + 1

        plg = logging.getLogger('vf.c12.loop')
        plg.setLevel(logging.INFO)
        plg.propagate = False
        plg.handlers[:] = [_Slow()]
    t_start = time.monotonic()
    w.start()

    def deliver():
        if ending[0] == 'terminate':
            ready.wait(20)
            w.terminate()
        elif ending[0] == 'signal':
            if ending[2] != 'before':
                ready.wait(20)
            if ending[2] == 'logging':
                time.sleep(0.3)  # the child has filled the pipe by now
            os.kill(w.pid, _signum(ending[1]))
            obs['signals_delivered'] = 1

    wait_fn = mm.wait if is_proc else mt.wait
    asc_fn = mm.as_completed if is_proc else mt.as_completed

    def access(name):
        def call():
            try:
                if name == 'join-t':
                    r = w.join(timeout=BOUND)
                    return ('ok', r) if w.done() else ('exc', TimeoutError('join(timeout) returned while done() is False'))
                if name == 'result-t':
                    return ('ok', w.result(timeout=BOUND))
                if name == 'exception-t':
                    return ('ok', w.exception(timeout=BOUND))
                if name == 'join':
                    return ('ok', w.join())
                if name == 'result':
                    return ('ok', w.result())
                if name == 'exception':
                    return ('ok', w.exception())
                if name == 'done':
                    while not w.done():
                        time.sleep(0.002)
                    return ('ok', True)
                if name == 'exitcode':
                    while w.exitcode is None:
                        time.sleep(0.002)
                    return ('ok', w.exitcode)
                if name == 'wait':
                    d, nd = wait_fn([w])
                    return ('ok', w in d and not nd)
                if name == 'as_completed':
                    return ('ok', [x is w for x in asc_fn([w])] == [True])
            except BaseException as e:  # noqa: BLE001
                return ('exc', e)

        obs['accessor_calls'] += 1
        return watch.run_bounded(call, BOUND, f'{kind}.{name}()')

    results = {}
    order = [case['first']] + [a for a in ACCESSORS if a != case['first'] and not (a == 'exitcode' and not is_proc)]
    try:
        if ending[0] in ('terminate', 'signal'):
            import threading

            th = threading.Thread(target=deliver, name='vf-deliver')
            th.start()
        for a in order:
            results[a] = access(a)
        if ending[0] in ('terminate', 'signal'):
            th.join()
    except watch.Hang as h:
        viol.append({'mech': f'{kind}/accessor-hangs/{ending[0]}' + (f'-{ending[1]}' if ending[0] == 'signal' else ''),
                     'msg': f'{h.what} did not return within {BOUND}s for ending {ending!r} (first accessor {case["first"]}); results so far {list(results)}', 'stacks': h.stacks})
        if fz:
            fz.stop()
        try:
            if is_proc and w.is_alive():
                w.kill()
        except Exception:
            pass
        return {'violations': viol, 'obs': obs, 'exit_after': True, 'nontrivial': True, 'sig': repr((kind, ending, case['first']))}
    finally:
        if fz:
            fz.stop()

    # ---- the timed variant used first must agree with its untimed twin (the worker ends well within the timeout)
    for tname in ('join-t', 'result-t', 'exception-t'):
        if tname in results and tname[:-2] in results:
            a, b = results[tname], results[tname[:-2]]
            same = a[0] == b[0] and (type(a[1]).__name__ == type(b[1]).__name__ if a[0] == 'exc' or isinstance(a[1], BaseException) else norm_exc(a[1]) == norm_exc(b[1]))
            if not same:
                mech = 'timed-accessor-times-out-for-ended-worker' if isinstance(a[1], TimeoutError) and not isinstance(b[1], TimeoutError) else 'timed-accessor-disagrees'
                viol.append({'mech': f'{kind}/{mech}', 'msg': f'ending {ending!r}: {tname[:-2]}(timeout={BOUND}) used first gave {str(a)[:150]}, the untimed call afterwards gave {str(b)[:150]}'})

    # ---- consistency table
    def bad(mech, msg):
        viol.append({'mech': f'{kind}/{mech}', 'msg': f'ending {ending!r}, first accessor {case["first"]}: {msg}'})

    for a, r in results.items():
        if a in ('done', 'wait', 'as_completed', 'exitcode') and r[0] == 'exc':
            bad(f'{a}-raised', f'{a} raised {r[1]!r}')
        if a in ('done', 'wait', 'as_completed') and r == ('ok', False):
            bad(f'{a}-incomplete', f'{a} did not report the finished worker as done')
    if not viol:
        j, res, exc = results['join'], results['result'], results['exception']
        ec = results.get('exitcode', ('ok', None))[1]
        expect = None  # ('value', v) | ('error', typename, args|None, code)
        if ending[0] == 'no-target':
            expect = ('value', None)
        elif ending[0] == 'return':
            expect = ('value', _real(ending[1]))
        elif ending[0] == 'raise':
            # the truth is what constructing the exception gives in this interpreter (OSError(2, ..) is a FileNotFoundError; args may differ from the call)
            ref = targets.make_exc(ending[1], _exc_args(ending[1:]), ending[3] if len(ending) > 3 else None)
            expect = ('error', type(ref).__name__, list(ref.args))
        elif ending[0] == 'exit':
            clean = ending[1] is None or (isinstance(ending[1], int) and ending[1] == 0)
            expect = ('value', None) if clean else ('error', 'SystemExit', [ending[1]])
        elif ending[0] == 'return-unpicklable' and not is_proc:
            expect = ('consistent',)  # a thread can return anything
        elif ending[0] in ('return-unpicklable', 'os-exit', 'raise-unrebuildable', 'return-unrebuildable'):
            expect = ('error', None, None)  # the child could not report: some error, consistently, in bounded time
        elif ending[0] == 'terminate' or (ending[0] == 'signal' and ending[1] == 'SIGTERM' and ending[2] not in ('after',)):
            expect = ('value', None)
        elif ending[0] == 'signal' and ending[2] == 'after':
            expect = ('value', 'lingered')
        elif ending[0] == 'signal' and ending[1] == 'SIGINT' and ending[2] == 'during':
            expect = ('error', 'KeyboardInterrupt', None)
        elif ending[0] == 'signal' and ending[1] == 'SIGINT':
            expect = ('consistent',)
        else:
            expect = ('error', None, None)  # unexpected signal: some error
        if expect[0] == 'consistent':
            expect = ('value', res[1]) if res[0] == 'ok' else ('error', None, None)
        if expect[0] == 'value':
            if j != ('ok', None):
                bad('join-disagrees', f'join gave {j!r}, expected to return None')
            if res[0] != 'ok' or norm_exc(res[1]) != norm_exc(expect[1]):
                bad('result-disagrees', f'result gave {str(res)[:200]}, expected value {str(expect[1])[:80]!r}')
            if exc != ('ok', None):
                bad('exception-disagrees', f'exception() gave {exc!r}, expected None')
        else:
            errs = []
            if j[0] != 'exc':
                bad('join-disagrees', f'join returned {j[1]!r}; the target ended with an error')
            else:
                errs.append(('join', j[1]))
            if res[0] != 'exc':
                bad('result-disagrees', f'result returned {str(res[1])[:100]!r}; the target ended with an error')
            else:
                errs.append(('result', res[1]))
            if exc[0] != 'ok' or exc[1] is None:
                bad('exception-disagrees', f'exception() gave {exc!r}; expected it to return the error')
            else:
                errs.append(('exception', exc[1]))
            for name, e in errs:
                obs['exceptions_checked'] += 1
                if expect[1] is not None and type(e).__name__ != expect[1]:
                    bad('wrong-error-type', f'{name}: got {e!r}, expected a {expect[1]}')
                    break
                if expect[2] is not None:
                    got_args = list(e.args) if expect[1] != 'SystemExit' else [e.code]
                    if norm_exc(got_args) != norm_exc(list(expect[2])):
                        bad('wrong-error-args', f'{name}: got {type(e).__name__}{tuple(e.args)!r}, expected args {expect[2]!r}')
                        break
                if ending[0] == 'raise':
                    obs['tracebacks_checked'] += 1
                    if is_proc:
                        ok = is_remote_exception(e) and 'SITE-MARK-C12' in get_remote_traceback(e)
                    else:
                        ok = 'SITE-MARK-C12' in str(e.__cause__)
                    if not ok:
                        bad('traceback-lost', f'{name}: {e!r} does not carry the traceback text of the raising line in the target')
                        break
            if len({(type(e).__name__, repr(norm_exc(list(e.args)))) for _, e in errs}) > 1:
                bad('accessors-disagree', f'join/result/exception report different errors: {[(n, repr(e)) for n, e in errs]}')
        if is_proc and isinstance(ec, int):
            want = None
            if ending[0] in ('return', 'no-target') or (ending[0] == 'exit' and (ending[1] is None or (isinstance(ending[1], int) and ending[1] == 0))):
                want = 0
            elif ending[0] in ('raise', 'raise-unrebuildable'):
                want = 1
            elif ending[0] == 'exit':
                want = (int(ending[1]) & 0xFF) if isinstance(ending[1], int) else 1  # what the OS keeps of the code
            elif ending[0] == 'terminate':
                want = -15
            elif ending[0] == 'os-exit':
                want = ending[1]
            elif ending[0] == 'signal' and not (ending[1] == 'SIGINT'):
                want = -_signum(ending[1])
            if want is not None and ec != want:
                bad('exitcode-disagrees', f'exitcode {ec}, expected {want}')
    if is_proc:
        try:
            if w.is_alive():
                w.kill()
        except Exception:
            pass
    nontrivial = not (ending[0] == 'return' and ending[1] is None)
    return {'violations': viol[:4], 'obs': obs, 'nontrivial': nontrivial, 'sig': repr((kind, ending, case['first'], case.get('immediate'))),
            'exit_after': bool(viol),
            'sample': {'kind': kind, 'ending': ending if ending != ['return', ['__bytes__', 1000000]] else ['return', '1 MB of bytes'], 'first_accessor': case['first'],
                       'results': {a: (r[0], repr(r[1])[:60]) for a, r in results.items()}, 'seconds': round(time.monotonic() - t_start, 3)}}


def decide_inconclusive(obs, results, cases):
    if obs.get('exceptions_checked', 0) == 0 or obs.get('signals_delivered', 0) == 0:
        return 'no error ending / no signal ending was observed'
    return None


RULE = RULE + '; falsy SystemExit codes; exception classes with validating constructors and one that cannot be rebuilt in the parent; Process / Thread without target; timed accessors used first; exit codes beyond one byte (256, 257, -1) and a returned value the parent cannot rebuild (the OS-level exit code is 0 although the target did not end well)'
