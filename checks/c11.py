"""C11 — server starts all-or-nothing and stops completely; the same object can be re-entered."""
from __future__ import annotations

import gc
import random
import threading
import time

from vlib import srvharness as SH, srvtargets as ST, targets, watch

PROPERTY = 'C11'
LEVEL = 'fault_enumeration'
RULE = ('(a) start faults: every servlet tree of a fixed list (thread/process leaves with 1-3 workers, sequential, ensemble, switch, nested; <=4 leaves) x '
        'every (leaf, worker index) failing to initialise: __enter__ must raise the worker\'s own InitBoom(tag, index) and the thread/process census must '
        'return to the baseline; then a *new* server is entered in the same process (GC thresholds swept) and must work; (b) stop: trees x prior workload '
        '{none, successes, failures, timed-out calls, abandoned stream with 50-400 pending requests of 0.1-4 kB, abandoned stream with large payloads through '
        'multi-worker process stages} x 3 enter/exit cycles of the same server object: __exit__ returns within the bound, census back to baseline, re-entry '
        'answers correctly. non-trivial = a failing worker position or a workload that leaves requests pending at exit; distinct = distinct case tuples; transient init failures (flag file): after the failed __enter__ the cause is removed and the SAME server object is entered, used and left twice')
ASSUMPTIONS = ['"bounded time" for __enter__/__exit__: 60 s (thread trees: typical 10-50 ms; process trees: 0.3-1.5 s) AND three identical stack samples 1 s apart',
               'leak = any child process, any non-daemon thread, any mpservice Thread still alive 5 s after the call returned; stdlib QueueFeederThread daemons are reported only']
CASE_TIMEOUT = 300
PARALLEL = 10
GROUP = 1
BOUND = 60
EXHAUSTIVE = {'quick': False, 'thorough': True}


def trees():
    T = lambda tag, n=1, b=0: ['T', tag, n, b, {}]  # noqa: E731
    P = lambda tag, n=1, b=0: ['P', tag, n, b, {}]  # noqa: E731
    return [
        ('T3', T('A', 3)), ('Tb', T('A', 2, 3)), ('P2', P('A', 2)), ('P3b', P('A', 3, 3)),
        ('seqTT', ['Seq', [T('A', 2), T('B', 2)]]), ('seqTP', ['Seq', [T('A', 1), P('B', 2)]]), ('seqPT', ['Seq', [P('A', 2), T('B', 1)]]),
        ('seqPP', ['Seq', [P('A', 2), P('B', 1)]]), ('seqTTT', ['Seq', [T('A', 1), T('B', 2, 3), T('C', 1)]]),
        ('ensTT', ['Ens', True, [T('A', 1), T('B', 2)]]), ('ensTP', ['Ens', False, [T('A', 1), P('B', 2)]]), ('ensPP', ['Ens', True, [P('A', 1), P('B', 1)]]),
        ('swTT', ['Sw', [T('A', 1), T('B', 2)]]), ('swTP', ['Sw', [T('A', 1), P('B', 1)]]),
        ('seq-ens', ['Seq', [T('A', 1), ['Ens', True, [T('B', 1), T('C', 2)]], T('D', 1)]]),
        ('ens-seq', ['Ens', False, [['Seq', [T('A', 1), T('B', 1)]], T('C', 2)]]),
        ('seq-ensP', ['Seq', [['Ens', False, [P('A', 1), T('B', 1)]], P('C', 2)]]),
        # composites inside composites, with a stage behind them
        ('seq-sw-ens', ['Seq', [['Sw', [['Ens', True, [T('A', 1), T('B', 1)]], T('C', 2)]], T('D', 1)]]),
        ('seq-sw-ensP', ['Seq', [['Sw', [['Ens', False, [P('A', 1), T('B', 1)]], P('C', 1)]], P('D', 1)]]),
        ('sw-seq-ens', ['Sw', [['Seq', [T('A', 1), P('B', 1)]], ['Ens', False, [T('C', 1), T('D', 1)]]]]),
        ('ens-sw', ['Ens', False, [['Sw', [T('A', 1), T('B', 2)]], T('C', 1)]]),
        ('ens-ensP', ['Ens', True, [['Ens', False, [T('A', 1), T('B', 1)]], P('C', 1)]]),
    ]


def gen_cases(tier, seed):
    rng = random.Random(seed)
    start, stop, big = [], [], []
    for name, tree in trees():
        for li, leaf in enumerate(SH.leaves(tree)):
            for wi in range(leaf[2]):
                start.append({'kind': 'start-fault', 'name': name, 'tree': tree, 'fail_leaf': leaf[1], 'fail_index': wi,
                              'gc_threshold': rng.choice([None, 700, 100, 10]), 'seed': rng.randrange(1 << 30)})
                start.append({'kind': 'start-fault', 'name': name, 'tree': tree, 'fail_leaf': leaf[1], 'fail_index': wi, 'transient': True,
                              'gc_threshold': None, 'seed': rng.randrange(1 << 30)})
                if wi == leaf[2] - 1 and name in ('T3', 'P2', 'seqTP', 'ensTP', 'swTP'):
                    # the worker gives up with SystemExit (not an Exception subclass)
                    start.append({'kind': 'start-fault', 'name': name, 'tree': tree, 'fail_leaf': leaf[1], 'fail_index': wi, 'init_kind': 'sysexit',
                                  'gc_threshold': None, 'seed': rng.randrange(1 << 30)})
                if leaf[0] == 'P' and name in ('P2', 'seqTP', 'ensTP', 'swTP', 'seqPP') and wi == leaf[2] - 1:
                    # a worker process that dies hard in __init__ (os._exit): it never gets to send the failure handshake
                    start.append({'kind': 'start-fault', 'name': name, 'tree': tree, 'fail_leaf': leaf[1], 'fail_index': wi, 'init_kind': 'osexit',
                                  'gc_threshold': None, 'seed': rng.randrange(1 << 30)})
                if name in ('T3', 'P2', 'seqTP', 'ensTP', 'swTP') and wi in (0, leaf[2] - 1):
                    # the worker leaves __init__ with sys.exit(0) / sys.exit(): there is no error to re-raise, but the server must not come up without it
                    start.append({'kind': 'start-fault', 'name': name, 'tree': tree, 'fail_leaf': leaf[1], 'fail_index': wi, 'init_kind': 'sysexit0',
                                  'gc_threshold': None, 'seed': rng.randrange(1 << 30)})
        for wl in ('none', 'ok', 'failures', 'timeouts', 'abandoned-stream'):
            stop.append({'kind': 'stop', 'name': name, 'tree': tree, 'workload': wl, 'cycles': 3, 'pending': rng.choice([50, 150, 400]),
                         'pad': rng.choice([100, 1000, 4000]), 'mode': rng.choice(['sync', 'sync', 'async']), 'seed': rng.randrange(1 << 30)})
    # a worker dies of a non-Exception error raised by the user's call() (SystemExit): by design that stops the servlet; leaving the context may
    # raise the worker's error, but must still return, leave nothing behind, and the same object must come up again
    for name, tree in trees():
        if name in ('T3', 'P2', 'seqTP', 'ensTP', 'swTP', 'seqPT'):
            for mode in ('sync', 'async'):
                stop.append({'kind': 'stop', 'name': name, 'tree': tree, 'workload': 'worker-dies', 'cycles': 2, 'pending': 0, 'pad': 100, 'mode': mode,
                             'die_leaf': len(SH.leaves(tree)) - 1 if mode == 'sync' else 0, 'seed': rng.randrange(1 << 30)})
        if name in ('Tb', 'P3b', 'seqTTT'):
            # a batching worker dies while its input buffer is full (many requests waiting behind a slow batch)
            bl = [i for i, lf in enumerate(SH.leaves(tree)) if lf[3]][0]
            stop.append({'kind': 'stop', 'name': name, 'tree': tree, 'workload': 'worker-dies', 'cycles': 2, 'pending': 0, 'pad': 100, 'mode': 'sync',
                         'die_leaf': bl, 'batched_crowd': 60, 'seed': rng.randrange(1 << 30)})
    for name, tree in trees():
        if SH.has_process(tree):
            big.append({'kind': 'stop', 'name': name, 'tree': tree, 'workload': 'abandoned-stream', 'cycles': 2, 'pending': 300, 'pad': 200_000,
                        'mode': 'sync', 'seed': rng.randrange(1 << 30)})
            # the same under AsyncServer (its shutdown path is separate code), with enough pending input to fill the pipes
            big.append({'kind': 'stop', 'name': name, 'tree': tree, 'workload': 'abandoned-stream', 'cycles': 2, 'pending': 200, 'pad': 20_000,
                        'mode': 'async', 'seed': rng.randrange(1 << 30)})
    # one member of a switch is slower than its sibling (an ensemble): it is still delivering when the sibling has stopped
    slow = []
    for name, tree in trees():
        if name == 'seq-sw-ensP':
            for mode in ('sync', 'async'):
                slow.append({'kind': 'stop', 'name': name, 'tree': tree, 'workload': 'abandoned-stream', 'cycles': 2, 'pending': 300, 'pad': 200_000,
                             'mode': mode, 'slow_tag': 'C', 'seed': rng.randrange(1 << 30)})
    # a slow PROCESS member of an ensemble: when the context is left its results (more than a pipe holds) are still to come, and every few
    # milliseconds all member output queues are empty at once
    for name, tree in trees():
        if name in ('ensTP', 'ensPP', 'seq-ensP', 'ens-ensP'):
            ptag = [lf[1] for lf in SH.leaves(tree) if lf[0] == 'P'][0]
            for mode, pad_ in (('sync', 200_000), ('async', 3_000)):
                slow.append({'kind': 'stop', 'name': name, 'tree': tree, 'workload': 'abandoned-stream', 'cycles': 2, 'pending': 60 if pad_ > 10_000 else 150, 'pad': pad_,
                             'mode': mode, 'slow_tag': ptag, 'slow_s': 0.02, 'seed': rng.randrange(1 << 30)})
    # ... the sibling is an ensemble of threads that receives nothing and stops at once; every request goes to the slow process member
    sw_ens_t = ['Seq', [['Sw', [['Ens', False, [['T', 'A', 1, 0, {}], ['T', 'B', 1, 0, {}]]], ['P', 'C', 1, 0, {}]]], ['P', 'D', 1, 0, {}]]]
    for mode in ('sync', 'async'):
        slow.append({'kind': 'stop', 'name': 'seq-sw-ensT', 'tree': sw_ens_t, 'workload': 'abandoned-stream', 'cycles': 2, 'pending': 60, 'pad': 200_000,
                     'mode': mode, 'slow_tag': 'C', 'slow_s': 0.05, 'only_member': 1, 'seed': rng.randrange(1 << 30)})
    big += slow
    if tier == 'quick':
        thr_s = [c for c in start if not SH.has_process(c['tree'])]
        prc_s = [c for c in start if SH.has_process(c['tree'])]
        thr_e = [c for c in stop if not SH.has_process(c['tree'])]
        prc_e = [c for c in stop if SH.has_process(c['tree'])]
        for lst in (prc_s, prc_e, big):
            rng.shuffle(lst)
        must = {'seqPT', 'seqPP', 'P3b', 'ensTP', 'seq-ensP'}  # multi-worker process stage upstream of another reader, process ensemble members
        bigq = [c for c in big if c['name'] in must and c['mode'] == 'sync'] + [c for c in big if c['mode'] == 'async' and c['name'] in ('P2', 'seqPT', 'seqPP', 'seq-ensP')]
        bigq = [c for c in bigq if c not in slow] + slow
        cases = thr_s + prc_s[:14] + [c for c in prc_s[14:] if c.get('init_kind')] + thr_e + prc_e[:12] + [c for c in prc_e[12:] if c['workload'] == 'worker-dies'] + bigq
    else:
        cases = start + stop + big
        for c in list(start):
            if SH.has_process(c['tree']):
                cases.append(dict(c, gc_threshold=rng.choice([700, 100, 10]), seed=rng.randrange(1 << 30)))
    rng.shuffle(cases)
    return cases


def alive_now(before):
    """mpservice Threads and child processes alive at this very instant that were not there before.
    A correct __exit__ / failed __enter__ has joined them, so this is checked without any grace period."""
    import multiprocessing
    import threading as th

    names_before = [t[0] for t in before['threads']]
    out = []
    for t in th.enumerate():
        cls = type(t).__module__ + '.' + type(t).__name__
        if cls == 'mpservice.threading.Thread' and t.is_alive() and not t.name.startswith('vf-'):
            if t.name in names_before:
                names_before.remove(t.name)
                continue
            out.append(('thread', t.name))
    for p in multiprocessing.active_children():
        if p.is_alive():
            out.append(('process', p.name))
    return out


def with_init_fault(tree, leaf_tag, idx, flag=None, kind=None):
    import copy

    t = copy.deepcopy(tree)
    for leaf in SH.leaves(t):
        if leaf[1] == leaf_tag:
            leaf[4]['fail_init_index'] = idx
            if flag:
                leaf[4]['fail_init_flag'] = flag
            if kind:
                leaf[4]['fail_init_kind'] = kind
    return t


def small_workload(server, tree, n=6, client=7, timeout=30):
    """A few plain requests; returns list of (tok, outcome)."""
    out = []
    for s in range(n):
        t = ('tok', client, s, ())
        try:
            y = server.call(t, timeout=timeout, backpressure=False)
        except BaseException as e:  # noqa: BLE001
            y = e
        out.append((t, y))
    return out


def judge_small(tree, results, viol, where):
    for t, y in results:
        got = SH.norm_outcome(y)
        ok, exp = SH.judge_outcome(tree, t, got)
        if not ok and any(a == 'unpicklable' for _, a, _ in t[3]) and SH.has_process(tree) and "'PicklingError', ('vf-unpicklable',)" in repr(got):
            continue  # failed alone at the first process boundary it met
        if not ok:
            viol.append({'mech': f'lifecycle/wrong-answer/{where}', 'msg': f'{where}: request {t[:3]} got {got!r}'[:400] + f', expected {exp!r}'[:300]})
            return False
    return True


def run_start_fault(case):
    from mpservice.mpserver import Server

    viol = []
    obs = {'start_fault_cases': 1, 'enter_raised_own_error': 0, 'census_checks': 0, 'followup_servers': 0, 'queue_feeder_leftovers': 0}
    import os
    import tempfile

    flag = None
    if case.get('transient'):
        fd, flag = tempfile.mkstemp(prefix='vf-c11-flag-')
        os.close(fd)
    tree = with_init_fault(case['tree'], case['fail_leaf'], case['fail_index'], flag, case.get('init_kind'))
    before = watch.census()
    if case['gc_threshold']:
        gc.set_threshold(case['gc_threshold'])
    server = Server(SH.build(tree), capacity=16)
    box = {}

    def enter():
        try:
            server.__enter__()
            box['entered'] = True
        except BaseException as e:  # noqa: BLE001
            box['exc'] = e
            box['alive_at_return'] = alive_now(before)

    try:
        watch.run_bounded(enter, BOUND, '__enter__ with a failing worker')
    except watch.Hang as h:
        viol.append({'mech': 'lifecycle/enter-hangs-on-init-failure', 'msg': f'__enter__ did not return when worker {case["fail_leaf"]}[{case["fail_index"]}] of {case["name"]} failed to initialise', 'stacks': h.stacks})
        return {'violations': viol, 'obs': obs, 'exit_after': True, 'nontrivial': True, 'sig': repr((case['name'], case['fail_leaf'], case['fail_index']))}
    if box.get('entered'):
        viol.append({'mech': 'lifecycle/init-failure-swallowed', 'msg': f'__enter__ succeeded although worker {case["fail_leaf"]}[{case["fail_index"]}] raised in __init__'})
        try:
            server.__exit__(None, None, None)
        except Exception:
            pass
    else:
        e = box.get('exc')
        if case.get('init_kind') in ('sysexit0', 'osexit'):
            obs['enter_raised_own_error'] = 1  # any error will do: the worker's own exit carries the 'success' code
        elif case.get('init_kind') == 'sysexit':
            if not isinstance(e, SystemExit) or f"{case['fail_leaf']}[{case['fail_index']}]" not in str(e.code):
                viol.append({'mech': 'lifecycle/enter-raised-other-error', 'msg': f'__enter__ raised {e!r}, expected the worker\'s SystemExit'})
            else:
                obs['enter_raised_own_error'] = 1
        elif type(e).__name__ != 'InitBoom' or tuple(e.args) != (case['fail_leaf'], case['fail_index']):
            viol.append({'mech': 'lifecycle/enter-raised-other-error', 'msg': f'__enter__ raised {e!r}, expected InitBoom{(case["fail_leaf"], case["fail_index"])!r}'})
        else:
            obs['enter_raised_own_error'] = 1
    if box.get('alive_at_return'):
        kind = 'processes' if any(k == 'process' for k, _ in box['alive_at_return']) else 'threads'
        viol.append({'mech': f'lifecycle/workers-left-after-failed-enter/{kind}', 'msg': f'{case["name"]}: worker {case["fail_leaf"]}[{case["fail_index"]}] failed to initialise; alive when __enter__ raised: {box["alive_at_return"]!r}'[:600]})
    box.clear()
    e = None
    extra, info = watch.leak_check(before, wait=6.0)
    obs['census_checks'] += 1
    obs['queue_feeder_leftovers'] += info.get('queue_feeder_threads', 0)
    if extra:
        kind = 'processes' if 'children' in extra else 'threads'
        viol.append({'mech': f'lifecycle/workers-left-after-failed-enter/{kind}', 'msg': f'{case["name"]}: worker {case["fail_leaf"]}[{case["fail_index"]}] failed to initialise; still alive: {extra!r}'[:700]})
        return {'violations': viol, 'obs': obs, 'exit_after': True, 'nontrivial': True, 'sig': repr((case['name'], case['fail_leaf'], case['fail_index']))}
    if flag:
        # the cause of the failure has gone away: the SAME server object is entered again, used, left, and entered once more
        os.unlink(flag)
        sig0 = repr((case['name'], case['fail_leaf'], case['fail_index'], 'transient'))

        def same_object():
            out = []
            for cyc in range(2):
                with server:
                    out.append(small_workload(server, case['tree'], n=4, client=50 + cyc))
                box[f'alive{cyc}'] = alive_now(before)
            return out

        try:
            res2 = watch.run_bounded(same_object, BOUND, 'the same server object entered again after a failed __enter__')
        except watch.Hang as h:
            viol.append({'mech': 'lifecycle/reentry-after-failed-enter-hangs', 'msg': f'{case["name"]}: after a failed __enter__ (worker {case["fail_leaf"]}[{case["fail_index"]}]) whose cause was removed, re-entering / leaving the same server did not return', 'stacks': h.stacks})
            return {'violations': viol, 'obs': obs, 'exit_after': True, 'nontrivial': True, 'sig': sig0}
        except BaseException as e:  # noqa: BLE001
            viol.append({'mech': 'lifecycle/reentry-after-failed-enter-fails', 'msg': f'{case["name"]}: after a failed __enter__ (worker {case["fail_leaf"]}[{case["fail_index"]}]) whose cause was removed, using the same server object raised {e!r}'})
            return {'violations': viol, 'obs': obs, 'exit_after': True, 'nontrivial': True, 'sig': sig0}
        obs['same_object_reentries'] = obs.get('same_object_reentries', 0) + 2
        for r in res2:
            judge_small(case['tree'], r, viol, 'same-object-after-failed-enter')
        for cyc in range(2):
            if box.get(f'alive{cyc}'):
                viol.append({'mech': 'lifecycle/worker-outlives-exit', 'msg': f'{case["name"]}: alive when __exit__ returned (cycle {cyc} after a failed enter): {box[f"alive{cyc}"]!r}'[:500]})
        box.clear()
        extra, info = watch.leak_check(before, wait=6.0)
        if extra:
            viol.append({'mech': 'lifecycle/leak-after-exit', 'msg': f'same server object after a failed enter: still alive after __exit__: {extra!r}'[:600]})
        return {'violations': viol, 'obs': obs, 'nontrivial': True, 'sig': sig0, 'exit_after': bool(viol) or SH.has_process(tree),
                'sample': {'kind': 'start-fault-transient', 'tree': case['name'], 'failing_worker': [case['fail_leaf'], case['fail_index']], 'reentries': 2}}
    # second-order history: a new server is entered in the same process (no gc.collect() in between, deliberately)
    tree2 = case['tree']
    server2 = Server(SH.build(tree2), capacity=16)

    def second():
        burst = [threading.Thread(target=lambda: None, name='vf-burst') for _ in range(20)]
        for t in burst:
            t.start()
        with server2:
            res = small_workload(server2, tree2)
        for t in burst:
            t.join()
        return res

    try:
        res = watch.run_bounded(second, BOUND, 'follow-up server after a failed __enter__')
    except watch.Hang as h:
        mech = 'lifecycle/next-enter-hangs-after-failed-enter'
        if any('_maintain_shutdown_locks' in fr or '_finalize' in fr for frs in h.stacks.values() for fr in frs):
            mech = 'lifecycle/gc-finalizer-deadlock'
        viol.append({'mech': mech, 'msg': 'a new server entered after a failed __enter__ did not come up / finish', 'stacks': h.stacks})
        return {'violations': viol, 'obs': obs, 'exit_after': True, 'nontrivial': True, 'sig': repr((case['name'], case['fail_leaf'], case['fail_index']))}
    obs['followup_servers'] = 1
    judge_small(tree2, res, viol, 'follow-up-server')
    extra, info = watch.leak_check(before, wait=6.0)
    obs['census_checks'] += 1
    if extra:
        viol.append({'mech': 'lifecycle/leak-after-exit', 'msg': f'follow-up server: still alive after __exit__: {extra!r}'[:600]})
    return {'violations': viol, 'obs': obs, 'nontrivial': True, 'sig': repr((case['name'], case['fail_leaf'], case['fail_index'])),
            'exit_after': bool(viol) or SH.has_process(tree),
            'sample': {'kind': 'start-fault', 'tree': case['name'], 'failing_worker': [case['fail_leaf'], case['fail_index']], 'gc_threshold': case['gc_threshold'],
                       'enter_raised_own_error': bool(obs['enter_raised_own_error']), 'followup_answers': len(res)}}


def run_stop(case):
    import asyncio

    from mpservice._common import TimeoutError as MpTimeout
    from mpservice.mpserver import AsyncServer, Server

    viol = []
    tree = case['tree']
    obs = {'stop_cases': 1, 'cycles': 0, 'census_checks': 0, 'pending_at_exit': 0, 'max_exit_seconds': 0.0, 'queue_feeder_leftovers': 0, 'reentries_ok': 0}
    before = watch.census()
    is_async = case['mode'] == 'async'
    server = (AsyncServer if is_async else Server)(SH.build(tree), capacity=max(16, case['pending'] + 8))
    wl = case['workload']
    lv = SH.leaves(tree)
    rng = random.Random(case['seed'])
    pad = 'x' * case['pad']

    def workload_sync(cycle):
        res = []
        if wl == 'ok':
            res = small_workload(server, tree, n=10, client=cycle)
        elif wl == 'failures':
            for s in range(10):
                leaf = rng.choice(lv)
                t = ('tok', cycle, s, ((leaf[1], 'poison' if leaf[3] else 'fail', None),) if s % 2 else ())
                SH.POISONERS.setdefault(leaf[1], set()).add((cycle, s)) if (s % 2 and leaf[3]) else None
                unroutable = s % 5 == 2 and SH.has_switch(tree)
                if unroutable:
                    t = ('tok', cycle, s, (('SW', 'unroutable' if s == 2 else 'badindex', None),))  # the user's switch() fails for this input
                elif s == 4:
                    t = ('tok', cycle, s, (('_', 'unpicklable', targets.UNPICKLABLE),))  # cannot cross a process boundary
                    unroutable = True
                try:
                    y = server.call(t, timeout=8 if unroutable else 30, backpressure=False)
                except BaseException as e:  # noqa: BLE001
                    y = e
                res.append((t, y))
        elif wl == 'worker-dies':
            res = small_workload(server, tree, n=4, client=cycle)
            if case.get('batched_crowd'):
                tag = lv[case['die_leaf']][1]
                toks = [('tok', cycle, 100 + s, ((tag, 'die', None),) if s == 7 else ((tag, 'sleep', 0.02),)) for s in range(case['batched_crowd'])]
                try:
                    for _ in server.stream(iter(toks), return_x=True, return_exceptions=True, timeout=2):
                        pass
                except BaseException as e:  # noqa: BLE001
                    box['fatal_outcome'] = repr(e)[:100]
                return res
            t = ('tok', cycle, 99, ((lv[case['die_leaf']][1], 'fail', 'SystemExit'),))
            try:
                server.call(t, timeout=3)
            except BaseException as e:  # noqa: BLE001
                box['fatal_outcome'] = repr(e)[:100]
        elif wl == 'timeouts':
            for s in range(10):
                t = ('tok', cycle, s, ((lv[0][1], 'sleep', 0.02),))
                try:
                    server.call(t, timeout=0.002, backpressure=False)
                except (MpTimeout, TimeoutError):
                    pass
                except Exception as e:  # noqa: BLE001
                    if type(e).__name__ != 'ServerBacklogFull':
                        viol.append({'mech': 'lifecycle/wrong-answer/timeouts', 'msg': f'short-deadline call raised {e!r}'})
        elif wl == 'abandoned-stream':
            toks = [('tok', cycle, s, (('_', 'pad', pad),) + (((case['slow_tag'], 'sleep', case.get('slow_s', 0.01)),) if case.get('slow_tag') else ()))
                    for s in (range(case['pending']) if case.get('only_member') is None else range(case['only_member'], 2 * case['pending'], 2))]
            it = server.stream(iter(toks), return_x=True, return_exceptions=True, timeout=60)
            k = 0
            for x, y in it:
                res.append((x, y))
                k += 1
                if k >= 2:
                    break
            it.close()
        obs['pending_at_exit'] += server.backlog
        return res

    async def workload_async(cycle):
        res = []
        if wl in ('ok', 'failures', 'timeouts'):
            for s in range(10):
                plan = ()
                if wl == 'failures' and s % 2:
                    leaf = rng.choice(lv)
                    plan = ((leaf[1], 'poison' if leaf[3] else 'fail', None),)
                    if leaf[3]:
                        SH.POISONERS.setdefault(leaf[1], set()).add((cycle, s))
                if wl == 'timeouts':
                    plan = ((lv[0][1], 'sleep', 0.02),)
                unroutable = wl == 'failures' and s % 5 == 2 and SH.has_switch(tree)
                if unroutable:
                    plan = (('SW', 'unroutable' if s == 2 else 'badindex', None),)
                elif wl == 'failures' and s == 4:
                    plan = (('_', 'unpicklable', targets.UNPICKLABLE),)
                    unroutable = True
                t = ('tok', cycle, s, plan)
                try:
                    y = await server.call(t, timeout=0.002 if wl == 'timeouts' else (8 if unroutable else 30), backpressure=False)
                except Exception as e:  # noqa: BLE001
                    y = e
                if wl != 'timeouts':
                    res.append((t, y))
        elif wl == 'worker-dies':
            for s in range(4):
                t = ('tok', cycle, s, ())
                try:
                    y = await server.call(t, timeout=30)
                except Exception as e:  # noqa: BLE001
                    y = e
                res.append((t, y))
            t = ('tok', cycle, 99, ((lv[case['die_leaf']][1], 'fail', 'SystemExit'),))
            try:
                await server.call(t, timeout=3)
            except BaseException as e:  # noqa: BLE001
                box['fatal_outcome'] = repr(e)[:100]
        elif wl == 'abandoned-stream':
            toks = [('tok', cycle, s, (('_', 'pad', pad),) + (((case['slow_tag'], 'sleep', case.get('slow_s', 0.01)),) if case.get('slow_tag') else ()))
                    for s in (range(case['pending']) if case.get('only_member') is None else range(case['only_member'], 2 * case['pending'], 2))]

            async def src():
                for t in toks:
                    yield t

            ait = server.stream(src(), return_x=True, return_exceptions=True, timeout=60)
            k = 0
            async for x, y in ait:
                res.append((x, y))
                k += 1
                if k >= 2:
                    break
            await ait.aclose()
        obs['pending_at_exit'] += server.backlog
        return res

    for cycle in range(case['cycles']):
        box = {}

        def one_cycle():
            if is_async:
                async def main():
                    try:
                        async with server:
                            box['res'] = await workload_async(cycle)
                            box['t_exit'] = time.monotonic()
                    except BaseException as e:  # noqa: BLE001
                        if wl != 'worker-dies' or 't_exit' not in box:
                            raise
                        box['exit_raised'] = repr(e)[:100]  # the dead worker's error may surface here
                    box['alive_at_return'] = alive_now(before)
                asyncio.run(main())
            else:
                try:
                    with server:
                        box['res'] = workload_sync(cycle)
                        box['t_exit'] = time.monotonic()
                except BaseException as e:  # noqa: BLE001
                    if wl != 'worker-dies' or 't_exit' not in box:
                        raise
                    box['exit_raised'] = repr(e)[:100]
                box['alive_at_return'] = alive_now(before)
            box['exit_s'] = time.monotonic() - box['t_exit']

        try:
            watch.run_bounded(one_cycle, BOUND, f'server cycle {cycle}')
        except watch.Hang as h:
            where = 'exit' if 't_exit' in box else ('enter-or-workload')
            viol.append({'mech': f'lifecycle/{where}-hangs/{wl}', 'msg': f'{case["name"]} cycle {cycle} workload {wl} (pending {case["pending"]} x {case["pad"]} B): did not return; stacks stable', 'stacks': h.stacks})
            return {'violations': viol, 'obs': obs, 'exit_after': True, 'nontrivial': True, 'sig': repr((case['name'], wl, case['mode'], case['pad']))}
        except watch.Inconclusive as e:
            return {'violations': viol, 'obs': obs, 'inconclusive': str(e), 'exit_after': True}
        except Exception as e:  # noqa: BLE001
            mech = 'lifecycle/reentry-fails' if cycle > 0 else 'lifecycle/cycle-raised'
            viol.append({'mech': mech, 'msg': f'{case["name"]} cycle {cycle} workload {wl}: {e!r}'})
            return {'violations': viol, 'obs': obs, 'exit_after': True, 'nontrivial': True, 'sig': repr((case['name'], wl, case['mode'], case['pad']))}
        if wl == 'worker-dies':
            obs['exits_after_worker_death'] = obs.get('exits_after_worker_death', 0) + 1
            obs['exits_that_raised'] = obs.get('exits_that_raised', 0) + (1 if box.get('exit_raised') else 0)
        obs['cycles'] += 1
        obs['max_exit_seconds'] = max(obs['max_exit_seconds'], round(box.get('exit_s', 0), 3))
        ok = judge_small(tree, box.get('res') or [], viol, f'cycle-{min(cycle, 1)}-{wl}')
        if cycle > 0 and ok:
            obs['reentries_ok'] += 1
        if box.get('alive_at_return'):
            viol.append({'mech': 'lifecycle/worker-outlives-exit', 'msg': f'{case["name"]} workload {wl} cycle {cycle}: alive at the moment __exit__ returned: {box["alive_at_return"]!r}'[:500]})
        obs['strict_exit_checks'] = obs.get('strict_exit_checks', 0) + 1
        if server.backlog != 0:
            viol.append({'mech': 'lifecycle/backlog-survives-exit', 'msg': f'{case["name"]} workload {wl}: backlog {server.backlog} after __exit__ (cycle {cycle})'})
        box.clear()
        extra, info = watch.leak_check(before, wait=6.0, ignore_thread=lambda name, daemon, cls: name.startswith('asyncio_') and daemon)
        obs['census_checks'] += 1
        obs['queue_feeder_leftovers'] += info.get('queue_feeder_threads', 0)
        if extra:
            kind = 'processes' if 'children' in extra else 'threads'
            viol.append({'mech': f'lifecycle/leak-after-exit/{kind}', 'msg': f'{case["name"]} workload {wl} cycle {cycle}: still alive after __exit__: {extra!r}'[:700]})
            break
        if viol:
            break
    return {'violations': viol[:5], 'obs': obs, 'nontrivial': wl in ('timeouts', 'abandoned-stream', 'worker-dies'), 'sig': repr((case['name'], wl, case['mode'], case['pad'])),
            'exit_after': bool(viol) or SH.has_process(tree),
            'sample': {'kind': 'stop', 'tree': case['name'], 'workload': wl, 'mode': case['mode'], 'pending': case['pending'], 'pad': case['pad'],
                       'cycles': obs['cycles'], 'pending_at_exit': obs['pending_at_exit'], 'max_exit_seconds': obs['max_exit_seconds']}}


def run_case(case):
    SH.POISONERS.clear()
    ST.CALL_LOG.clear()
    if case['kind'] == 'start-fault':
        return run_start_fault(case)
    return run_stop(case)


def decide_inconclusive(obs, results, cases):
    if obs.get('start_fault_cases', 0) == 0 or obs.get('stop_cases', 0) == 0:
        return 'no start-fault / stop case ran'
    if obs.get('pending_at_exit', 0) == 0:
        return 'no case left requests pending at exit'
    return None


RULE = RULE + "; SystemExit in a worker's __init__; unroutable and unpicklable requests in the failure workload; composites inside composites; large abandoned streams under AsyncServer; sys.exit(0) / sys.exit() in a worker's __init__; a worker that dies of SystemExit raised by call(), then exit and re-entry of the same object"
