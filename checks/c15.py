"""C15 — exceptions keep type, args and traceback text across pickle hops (RemoteException)."""
from __future__ import annotations

import pickle
import random
import sys
import traceback

from vlib import targets, watch
from vlib.targets import norm_exc

PROPERTY = 'C15'
EVALUATIONS_KEYS = ['chains', 'ensembles', 'process_chains']
LEVEL = 'exploration'
RULE = ('picklable exception classes (32: builtins with special constructors, OSError errno subclasses, custom __init__/__reduce__/keyword-only, attributes, '
        'chained causes, ExceptionGroup, BaseExceptions) x traceback depth 1-40 x hops 1-6 x hop pattern {forward only, re-raise at every hop, alternating, '
        'seeded} through in-memory pickle, and sampled through real pipes (mpservice Process re-raising in a child, chained 1-3 deep); nesting inside '
        'EnsembleError with mixed members. non-trivial = >=2 hops with at least one re-raise or an EnsembleError; distinct = distinct (class, depth, pattern)')
ASSUMPTIONS = ['precondition: the bare exception survives pickle with type and args (otherwise the case is counted not_applicable, not a verdict)',
               'args are compared after normalising nested exceptions to (type name, args)']
CASE_TIMEOUT = 120
PARALLEL = 14


class AttrExc(Exception):
    def __init__(self, a, b=2):
        super().__init__(a, b)
        self.a = a
        self.b = b


class NoArgsExc(Exception):
    def __init__(self):
        super().__init__()


class StrSubExc(KeyError):
    pass


class KeepsCause(Exception):
    """Its pickling carries `__cause__` along (as tblib-style or hand-written __reduce__ implementations do)."""

    def __reduce__(self):
        return (KeepsCause, self.args, {'__cause__': self.__cause__})


EXC_SPECS = [
    ('ValueError', ('x',), None), ('KeyError', ('k',), None), ('KeyError', (('tuple', 1),), None), ('IndexError', (), None), ('OSError', (2, 'No such file'), None),
    ('OSError', (13, 'denied', 'fname'), None), ('FileNotFoundError', (2, 'nf', 'name'), None), ('ConnectionResetError', (104, 'reset'), None),
    ('UnicodeDecodeError', ('utf-8', b'\xff', 0, 1, 'bad'), None), ('UnicodeEncodeError', ('ascii', 'é', 0, 1, 'bad'), None), ('StopIteration', (5,), None),
    ('StopAsyncIteration', (), None), ('SystemExit', (3,), None), ('KeyboardInterrupt', (), None), ('GeneratorExit', (), None), ('AssertionError', ('msg',), None),
    ('ZeroDivisionError', ('division by zero',), None), ('RuntimeError', ('a', 'b', 3), None), ('TimeoutError', ('late',), None), ('MemoryError', (), None),
    ('RecursionError', ('deep',), None), ('NotImplementedError', (), None), ('ImportError', ('no module',), None), ('AttributeError', ('attr',), None),
    ('Boom', ('a', 1), None), ('Boom2', (1, 2), None), ('ReduceExc', (7, 'detail'), None), ('KwOnlyExc', (), {'reason': 'why'}), ('Reject', ('r',), None),
    ('AttrExc', ('p',), None), ('NoArgsExc', (), None), ('StrSubExc', ('sub',), None), ('LookupError', (ValueError('inner'),), None),
    ('KeepsCause', ('kc', 1), None),
    # message texts that no codec round-trips by default: lone surrogates (undecodable file names via os.fsdecode, json '\\ud83d'), NUL, astral
    # characters, line separators inside the message
    ('ValueError', ('cannot parse report-\udcff\udcfe.csv',), None), ('RuntimeError', ('half a pair \ud83d here',), None),
    ('ValueError', ('nul \x00 inside, emoji \U0001f600, line sep \u2028 and\nnewline',), None),
]
LOCAL = {'AttrExc': AttrExc, 'NoArgsExc': NoArgsExc, 'StrSubExc': StrSubExc, 'KeepsCause': KeepsCause}


def make(name, args, kwargs):
    if name in LOCAL:
        return LOCAL[name](*args)
    if name in targets.EXC_TABLE:
        return targets.make_exc(name, list(args), kwargs)
    import builtins

    return getattr(builtins, name)(*args)


def raise_at_depth(e, d, cause=None):
    # two alternating functions: the traceback formatter collapses runs of identical frames ("[Previous line repeated n more times]"),
    # which would keep deep tracebacks short
    if d <= 1:
        if cause is not None:
            raise e from cause  # SITE-MARK-C15 origin
        raise e  # SITE-MARK-C15 origin
    return _raise_at_depth_b(e, d - 1, cause)


def _raise_at_depth_b(e, d, cause=None):
    if d <= 1:
        if cause is not None:
            raise e from cause  # SITE-MARK-C15 origin
        raise e  # SITE-MARK-C15 origin
    return raise_at_depth(e, d - 1, cause)


def gen_cases(tier, seed):
    rng = random.Random(seed)
    cases = []
    patterns = ['forward', 'reraise', 'alternate', 'seeded']
    for i, spec in enumerate(EXC_SPECS):
        for depth in ([1, 7, 40] if tier == 'quick' else [1, 2, 7, 20, 40]):
            for hops in ([1, 2, 3, 6] if tier == 'quick' else [1, 2, 3, 4, 5, 6]):
                for pat in patterns:
                    cases.append({'kind': 'memory', 'spec': i, 'depth': depth, 'hops': hops, 'pattern': pat, 'chained': rng.random() < (0.25 if spec[0] != 'KeepsCause' else 0.8),
                                  'seed': rng.randrange(1 << 30)})
    for i in range(60 if tier == 'quick' else 600):
        cases.append({'kind': 'ensemble', 'members': [rng.randrange(len(EXC_SPECS)) for _ in range(rng.choice([2, 3, 4]))], 'hops': rng.choice([1, 2, 3]),
                      'pattern': rng.choice(patterns), 'depth': rng.choice([1, 5]), 'seed': rng.randrange(1 << 30)})
    for i in range(8 if tier == 'quick' else 120):
        cases.append({'kind': 'process', 'spec': rng.randrange(len(EXC_SPECS)), 'depth': rng.choice([1, 5]), 'chain': rng.choice([1, 2, 3]), 'seed': rng.randrange(1 << 30)})
    # group the cheap in-memory cases
    grouped = []
    mem = [c for c in cases if c['kind'] != 'process']
    rng.shuffle(mem)
    for i in range(0, len(mem), 60):
        grouped.append({'kind': 'group', 'cases': mem[i:i + 60]})
    return grouped + [c for c in cases if c['kind'] == 'process']


def origin(spec_i, depth, chained):
    name, args, kwargs = EXC_SPECS[spec_i]
    e = make(name, args, kwargs)
    try:
        raise_at_depth(e, depth, ValueError('the cause') if chained else None)
    except BaseException as ex:  # noqa: BLE001
        return ex


def picklable(e):
    try:
        e2 = pickle.loads(pickle.dumps(e))
        return type(e2) is type(e) and norm_exc(list(e2.args)) == norm_exc(list(e.args))
    except Exception:
        return False


def hop(RE, e, reraise):
    """One hop: (optionally re-raise,) wrap in RemoteException, pickle, unpickle."""
    if reraise:
        try:
            raise e
        except BaseException as ex:  # noqa: BLE001
            e = ex
    return pickle.loads(pickle.dumps(RE(e)))


def pattern_flags(pat, hops, rng):
    # the first hop always starts from the live exception (it has a traceback): "re-raise" is irrelevant there
    if pat == 'forward':
        return [False] * hops
    if pat == 'reraise':
        return [False] + [True] * (hops - 1)
    if pat == 'alternate':
        return [False] + [(i % 2 == 0) for i in range(hops - 1)]
    return [False] + [rng.random() < 0.5 for _ in range(hops - 1)]


def check_chain(RX, e0, flags, viol, obs, what):
    RE, is_remote, get_tb = RX
    orig_tb = ''.join(traceback.format_exception(type(e0), e0, e0.__traceback__))
    want_type, want_args = type(e0), norm_exc(list(e0.args))
    e = e0
    prev_tb = None
    for k, rr in enumerate(flags):
        e = hop(RE, e, rr)
        obs['hops'] += 1
        if type(e) is not want_type:
            viol.append({'mech': 'remote-exception/type-changed', 'msg': f'{what}: after hop {k + 1} type is {type(e).__name__}, was {want_type.__name__}'})
            return None
        if norm_exc(list(e.args)) != want_args:
            viol.append({'mech': 'remote-exception/args-changed', 'msg': f'{what}: after hop {k + 1} args {e.args!r}, were {e0.args!r}'})
            return None
        if not is_remote(e):
            viol.append({'mech': 'remote-exception/not-remote', 'msg': f'{what}: is_remote_exception is false after hop {k + 1}'})
            return None
        tb = get_tb(e)
        if orig_tb not in tb or 'SITE-MARK-C15' not in tb:
            viol.append({'mech': 'remote-exception/traceback-lost', 'msg': f'{what}: after hop {k + 1} (re-raised={rr}) the remote traceback no longer contains the originally formatted traceback; '
                         f'text starts {tb[:120]!r}'})
            return None
        if prev_tb is not None and not rr and tb != prev_tb:
            viol.append({'mech': 'remote-exception/forwarded-text-changed', 'msg': f'{what}: hop {k + 1} only forwarded the exception but the traceback text changed'})
            return None
        prev_tb = tb
    return e


def run_group(case):
    from mpservice.multiprocessing.remote_exception import EnsembleError, RemoteException, get_remote_traceback, is_remote_exception

    RX = (RemoteException, is_remote_exception, get_remote_traceback)
    viol = []
    obs = {'chains': 0, 'hops': 0, 'not_applicable': 0, 'ensembles': 0, 'ensemble_members_checked': 0}
    sigs = []
    sample = None
    for c in case['cases']:
        rng = random.Random(c['seed'])
        if c['kind'] == 'memory':
            e0 = origin(c['spec'], c['depth'], c['chained'])
            if not picklable(e0):
                obs['not_applicable'] += 1
                continue
            flags = pattern_flags(c['pattern'], c['hops'], rng)
            name = EXC_SPECS[c['spec']][0]
            ek = check_chain(RX, e0, flags, viol, obs, f'{name} depth {c["depth"]} flags {flags}')
            obs['chains'] += 1
            if c['hops'] >= 2 and any(flags):
                sigs.append(hash((c['spec'], c['depth'], c['pattern'], c['hops'], c['chained'])) & 0xFFFFFFFFFFFF)
            if sample is None and ek is not None and c['hops'] >= 3:
                sample = {'class': name, 'args': repr(EXC_SPECS[c['spec']][1]), 'depth': c['depth'], 'hop_reraise_flags': flags,
                          'remote_traceback_len': len(get_remote_traceback(ek))}
        else:
            members = []
            for mi in c['members']:
                r = rng.random()
                if r < 0.2:
                    members.append(('val', ('value', mi)))
                elif r < 0.3:
                    members.append(('none', None))
                else:
                    em = origin(mi, c['depth'], False)
                    if not picklable(em):
                        members.append(('val', 'unpicklable-replaced'))
                    else:
                        members.append(('exc', em))
            if not any(k == 'exc' for k, _ in members):
                members[0] = ('exc', origin(0, c['depth'], False))
            z = {'y': [v for _, v in members], 'n': sum(1 for k, _ in members if k != 'none')}
            origs = [(''.join(traceback.format_exception(type(v), v, v.__traceback__)), type(v), norm_exc(list(v.args))) if k == 'exc' else None for k, v in members]
            try:
                raise EnsembleError(z)
            except EnsembleError as ex:
                e = ex
            flags = pattern_flags(c['pattern'], c['hops'], rng)
            bad = False
            for k, rr in enumerate(flags):
                e = hop(RemoteException, e, rr)
                obs['hops'] += 1
                if type(e) is not EnsembleError or not is_remote_exception(e):
                    viol.append({'mech': 'remote-exception/ensemble-error-changed', 'msg': f'after hop {k + 1}: {type(e).__name__}, remote={is_remote_exception(e)}'})
                    bad = True
                    break
                ys = e.args[1]['y']
                if len(ys) != len(members) or e.args[1]['n'] != z['n']:
                    viol.append({'mech': 'remote-exception/ensemble-error-changed', 'msg': f'after hop {k + 1}: member list / count changed'})
                    bad = True
                    break
                for (kind, v), y, o in zip(members, ys, origs):
                    if kind != 'exc':
                        if norm_exc(y) != norm_exc(v):
                            viol.append({'mech': 'remote-exception/ensemble-member-changed', 'msg': f'after hop {k + 1}: plain member {v!r} became {y!r}'})
                            bad = True
                        continue
                    obs['ensemble_members_checked'] += 1
                    inner = y.exc if isinstance(y, RemoteException) else y
                    tb = y.tb if isinstance(y, RemoteException) else (get_remote_traceback(y) if is_remote_exception(y) else '')
                    if type(inner) is not o[1] or norm_exc(list(inner.args)) != o[2]:
                        viol.append({'mech': 'remote-exception/ensemble-member-changed', 'msg': f'after hop {k + 1}: member {o[1].__name__}{o[2]!r} became {inner!r}'})
                        bad = True
                    elif o[0] not in tb:
                        viol.append({'mech': 'remote-exception/ensemble-member-traceback-lost', 'msg': f'after hop {k + 1}: member {inner!r} lost its traceback text (has {len(tb)} chars)'})
                        bad = True
                if bad:
                    break
            obs['ensembles'] += 1
            sigs.append(hash(('ens', tuple(c['members']), c['pattern'], c['hops'])) & 0xFFFFFFFFFFFF)
        if len(viol) > 5:
            break
    return {'violations': viol[:6], 'obs': obs, 'sigs': sigs, 'nontrivial': bool(sigs), 'sample': sample}


def hop_process(e_wrapped, chain):
    """Runs in a child: re-raise what came through the pipe; optionally pass it on to a grandchild first."""
    import mpservice.multiprocessing as mm
    from mpservice.multiprocessing.remote_exception import RemoteException

    e = e_wrapped  # arrived through the spawn pipe: an exception with a RemoteTraceback cause
    if chain > 1:
        p = mm.Process(target=hop_process, args=(RemoteException(e), chain - 1))
        p.start()
        try:
            p.result()
        except BaseException as ex:  # noqa: BLE001
            raise ex
    raise e


def run_process(case):
    import mpservice.multiprocessing as mm
    from mpservice.multiprocessing.remote_exception import RemoteException, get_remote_traceback, is_remote_exception

    viol = []
    obs = {'process_chains': 1, 'hops': 0, 'not_applicable': 0}
    e0 = origin(case['spec'], case['depth'], False)
    name = EXC_SPECS[case['spec']][0]
    if not picklable(e0) or isinstance(e0, (SystemExit, KeyboardInterrupt, GeneratorExit)):
        # SystemExit / KeyboardInterrupt raised in a child have their own meaning for Process (C12): not a transport case
        obs['not_applicable'] = 1
        return {'violations': [], 'obs': obs, 'nontrivial': False, 'sig': None}
    orig_tb = ''.join(traceback.format_exception(type(e0), e0, e0.__traceback__))
    p = mm.Process(target=hop_process, args=(RemoteException(e0), case['chain']))
    p.start()

    def fin():
        try:
            p.result()
            return None
        except BaseException as ex:  # noqa: BLE001
            return ex

    try:
        e = watch.run_bounded(fin, 60, 'process chain')
    except watch.Hang as h:
        viol.append({'mech': 'remote-exception/process-chain-hangs', 'msg': f'{name}: chain of {case["chain"]} processes did not finish', 'stacks': h.stacks})
        return {'violations': viol, 'obs': obs, 'exit_after': True, 'nontrivial': True, 'sig': repr(case)}
    obs['hops'] = 2 * case['chain']
    if e is None or type(e) is not type(e0) or norm_exc(list(e.args)) != norm_exc(list(e0.args)):
        viol.append({'mech': 'remote-exception/type-changed' if e is None or type(e) is not type(e0) else 'remote-exception/args-changed',
                     'msg': f'{name}{e0.args!r} came back through {case["chain"]} processes as {e!r}'})
    elif not is_remote_exception(e) or orig_tb not in get_remote_traceback(e):
        viol.append({'mech': 'remote-exception/traceback-lost', 'msg': f'{name}: after {case["chain"]} process hops the remote traceback lacks the original text'})
    return {'violations': viol, 'obs': obs, 'nontrivial': True, 'sig': hash(('proc', case['spec'], case['chain'], case['depth'])) & 0xFFFFFFFFFFFF, 'exit_after': True,
            'sample': {'kind': 'process', 'class': name, 'chain': case['chain'], 'came_back': repr(e)[:80]}}


def run_case(case):
    if case['kind'] == 'group':
        return run_group(case)
    return run_process(case)


def decide_inconclusive(obs, results, cases):
    if obs.get('chains', 0) == 0 or obs.get('ensemble_members_checked', 0) == 0 or obs.get('process_chains', 0) == 0:
        return 'no chain / no ensemble member / no process chain was checked'
    return None


RULE = RULE + '; a class whose pickling keeps __cause__; deep stacks through alternating functions (long traceback text)'
