"""Runtime-monitoring machinery for zpz/mpservice (see /verif/DESIGN.md)."""
import os

VERIF_DIR = os.path.dirname(os.path.dirname(os.path.abspath(__file__)))
REPO_DIR = os.environ.get('VERIF_REPO', '/repo')
REPO_SRC = os.path.join(REPO_DIR, 'src')
PYTHON = os.environ.get('VERIF_PYTHON', '/venv/bin/python')
