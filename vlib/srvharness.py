"""Server harness: servlet-tree grammar, builder, reference interpreter on tagged tokens, outcome
normaliser/matcher, ledger shadow, adversarial-but-legal id() allocator (DESIGN 3.4, 3.5, 3.7).

Tree descriptors (JSON-able):
  ['T', tag, n_workers, batch_size, extra]     ThreadServlet of TagWorker
  ['P', tag, n_workers, batch_size, extra]     ProcessServlet of TagWorker
  ['Seq', [child, ...]]
  ['Ens', fail_fast, [child, ...]]
  ['Sw', [child, ...]]                         member = token seq % n; the user's switch() fails for requests whose plan says ('SW', 'unroutable' | 'badindex')
"""
from __future__ import annotations

import random
import threading
import weakref

from .targets import Boom, Reject


# ----------------------------------------------------------------------------- build
def build(desc, log_dir=None, fuzz_child=None):
    from mpservice.mpserver import EnsembleServlet, ProcessServlet, SequentialServlet, SwitchServlet, ThreadServlet
    from .srvtargets import TagWorker, tid

    k = desc[0]
    if k in ('T', 'P'):
        _, tag, nw, bs, extra = desc
        kw = dict(tag=tag, log_dir=log_dir, **(extra or {}))
        if bs:
            kw['batch_size'] = bs
            if bs > 1:
                kw.setdefault('batch_wait_time', 0.002)
        if k == 'T':
            return ThreadServlet(TagWorker, num_threads=nw, **kw)
        if fuzz_child:
            kw['fuzz'] = fuzz_child
        return ProcessServlet(TagWorker, cpus=[None] * nw, **kw)
    if k == 'Seq':
        return SequentialServlet(*[build(c, log_dir, fuzz_child) for c in desc[1]])
    if k == 'Ens':
        return EnsembleServlet(*[build(c, log_dir, fuzz_child) for c in desc[2]], fail_fast=desc[1])
    if k == 'Sw':
        n = len(desc[1])

        class Sw(SwitchServlet):
            def switch(self, x):
                # user code: may fail for one input (plan entry ('SW', 'unroutable' | 'badindex', None))
                from .srvtargets import plan_for
                from .targets import Reject

                acts = [a for a, _ in plan_for(x, 'SW')]
                if 'unroutable' in acts:
                    raise Reject('SW', tid(x))
                if 'badindex' in acts:
                    return n + 7
                return tid(x)[1] % n

        return Sw(*[build(c, log_dir, fuzz_child) for c in desc[1]])
    raise ValueError(k)


def has_switch(desc):
    if desc[0] == 'Sw':
        return True
    if desc[0] in ('T', 'P'):
        return False
    return any(has_switch(c) for c in (desc[1] if desc[0] == 'Seq' else desc[2]))


def leaves(desc):
    if desc[0] in ('T', 'P'):
        return [desc]
    kids = desc[1] if desc[0] in ('Seq', 'Sw') else desc[2]
    out = []
    for c in kids:
        out.extend(leaves(c))
    return out


def n_workers(desc):
    return sum(leaf[2] for leaf in leaves(desc))


def has_process(desc):
    return any(leaf[0] == 'P' for leaf in leaves(desc))


def random_tree(rng, depth=2, allow_process=True, tags=None, max_leaves=5):
    tags = tags if tags is not None else iter('ABCDEFGHIJKLMNOP')

    def leaf():
        kind = 'P' if allow_process and rng.random() < 0.25 else 'T'
        nw = rng.choice([1, 1, 2, 3])
        bs = rng.choice([0, 0, 1, 3])
        extra = {}
        if kind == 'T' and rng.random() < 0.25:
            extra['nstream'] = rng.choice([2, 3])  # in-worker thread pool: several requests in flight inside one worker
        return [kind, next(tags), nw, bs, extra]

    def node(d):
        if d == 0 or rng.random() < 0.35:
            return leaf()
        r = rng.random()
        if r < 0.45:
            return ['Seq', [node(d - 1) for _ in range(rng.choice([2, 2, 3]))]]
        if r < 0.8:
            return ['Ens', rng.random() < 0.5, [node(d - 1) for _ in range(rng.choice([2, 2, 3]))]]
        return ['Sw', [node(d - 1) for _ in range(rng.choice([2, 3]))]]

    while True:
        tags_list = list('ABCDEFGHIJKLMNOP')
        tags = iter(tags_list)
        t = node(depth)
        if len(leaves(t)) <= max_leaves:
            return t


# ----------------------------------------------------------------------------- reference
class AnyBatchWith:
    """Wildcard for BatchBoom's second argument: a list of request ids that contains `tid` and at
    least one request whose plan poisons leaf `tag`."""

    def __init__(self, tid, tag=None):
        self.tid = tuple(tid)
        self.tag = tag

    def __repr__(self):
        return f'AnyBatchWith{self.tid}'


def _is_exc(v):
    return isinstance(v, tuple) and len(v) >= 2 and v[0] in ('EXC', 'ENSERR-FF', 'ENSERR-ALL')


def interpret(desc, v, tok, forced=frozenset()):
    """Expected (normalised) outcome of servlet `desc` on value v for request token `tok`."""
    from .srvtargets import plan_for

    k = desc[0]
    if _is_exc(v):
        return v  # failures short-circuit every downstream stage
    if k in ('T', 'P'):
        tag, bs = desc[1], desc[3]
        t = (tok[1], tok[2])
        acts = [a for a, _ in plan_for(tok, tag)]
        if 'reject' in acts:
            if any(a == 'reject' and arg == 'const' for a, arg in plan_for(tok, tag)):
                return ('EXC', 'ValueError', ('bad input',))
            return ('EXC', 'Reject', (tag, t))
        if bs and bs > 0:
            if 'poison' in acts or tag in forced:
                return ('EXC', 'BatchBoom', (tag, AnyBatchWith(t, tag)))
            return (tag, v)
        if 'return-exc' in acts:
            return ('EXC', 'Boom', (tag, t))
        if 'fail' in acts:
            cls = next((arg for a, arg in plan_for(tok, tag) if a == 'fail'), None)
            if cls == 'const':
                return ('EXC', 'ValueError', ('bad input',))
            if cls and not isinstance(cls, int):
                from .targets import handler_exc_class

                return ('EXC', handler_exc_class(cls).__name__, (tag, t))
            return ('EXC', 'Boom', (tag, t))
        return (tag, v)
    if k == 'Seq':
        for c in desc[1]:
            v = interpret(c, v, tok, forced)
        return v
    if k == 'Ens':
        outs = [interpret(c, v, tok, forced) for c in desc[2]]
        nfail = sum(1 for o in outs if _is_exc(o))
        if desc[1] and nfail:
            return ('ENSERR-FF', outs)
        if nfail == len(outs):
            return ('ENSERR-ALL', outs)
        return list(outs)
    if k == 'Sw':
        from .srvtargets import plan_for

        acts = [a for a, _ in plan_for(tok, 'SW')]
        if 'unroutable' in acts:
            return ('EXC', 'Reject', ('SW', (tok[1], tok[2])))
        if 'badindex' in acts:
            return ('EXC', 'IndexError', ('list index out of range',))
        return interpret(desc[1][tok[2] % len(desc[1])], v, tok, forced)
    raise ValueError(k)


def poisoned_leaves(desc, tok):
    from .srvtargets import plan_for

    return [leaf[1] for leaf in leaves(desc) if leaf[3] and any(a == 'poison' for a, _ in plan_for(tok, leaf[1]))]


def norm_outcome(o):
    from mpservice.multiprocessing.remote_exception import EnsembleError, RemoteException

    if isinstance(o, RemoteException):
        return norm_outcome(o.exc)
    if isinstance(o, EnsembleError):
        z = o.args[1]
        return ('EXC', 'EnsembleError', z.get('n'), [None if y is None else norm_outcome(y) for y in z['y']])
    if isinstance(o, BaseException):
        return ('EXC', type(o).__name__, tuple(norm_outcome(a) for a in o.args))
    if isinstance(o, tuple):
        return tuple(norm_outcome(a) for a in o)
    if isinstance(o, list):
        return [norm_outcome(a) for a in o]
    return o


POISONERS = {}  # tag -> set of request ids whose plan poisons that (batched) leaf; filled by the check


def _mentions_tag(exp, tag):
    if isinstance(exp, AnyBatchWith):
        return False
    if isinstance(exp, (tuple, list)):
        if len(exp) >= 1 and exp[0] == tag:
            return True
        if len(exp) == 3 and exp[0] == 'EXC' and isinstance(exp[2], tuple) and exp[2] and exp[2][0] == tag:
            return True
        return any(_mentions_tag(e, tag) for e in exp)
    return False


def match(exp, got, own=None):
    """True iff the normalised outcome `got` is allowed by the expectation `exp`.

    (A request that shares a batch with a poisoned request legitimately fails at that leaf: see `judge_outcome`.)"""
    if isinstance(exp, AnyBatchWith):
        return False
    if isinstance(exp, (tuple, list)):
        if len(exp) >= 1 and exp[0] == tag:
            return True
        if len(exp) == 3 and exp[0] == 'EXC' and isinstance(exp[2], tuple) and exp[2] and exp[2][0] == tag:
            return True
        return any(_mentions_tag(e, tag) for e in exp)
    return False


def match(exp, got, own=None):
    """True iff the normalised outcome `got` is allowed by the expectation `exp`.

    (A request that shares a batch with a poisoned request legitimately fails at that leaf: see `judge_outcome`.)"""
    if (own is not None and isinstance(got, tuple) and len(got) == 3 and got[0] == 'EXC' and got[1] == 'BatchBoom'
            and isinstance(got[2], tuple) and len(got[2]) == 2 and isinstance(got[2][1], list)):
        tag, ids = got[2]
        idset = {tuple(i) for i in ids if isinstance(i, (list, tuple))}
        if tuple(own) in idset and idset & POISONERS.get(tag, set()) and _mentions_tag(exp, tag):
            return True
    if isinstance(exp, AnyBatchWith):
        try:
            ids = {tuple(i) for i in got}
        except TypeError:
            return False
        return exp.tid in ids and bool(ids & POISONERS.get(exp.tag, set()))
    if isinstance(exp, tuple) and exp and exp[0] in ('ENSERR-FF', 'ENSERR-ALL'):
        if not (isinstance(got, tuple) and len(got) == 4 and got[:2] == ('EXC', 'EnsembleError')):
            return False
        n, ys = got[2], got[3]
        members = exp[1]
        if len(ys) != len(members):
            return False
        present = [y for y in ys if y is not None]
        if n != len(present):
            return False
        for e, y in zip(members, ys):
            if y is None:
                if exp[0] == 'ENSERR-ALL':
                    return False
                continue
            if not match(e, y, own):
                return False
        if not any(_is_exc_got(y) for y in present):
            return False
        return True
    if isinstance(exp, (tuple, list)):
        if type(exp) is not type(got) or len(exp) != len(got):
            return False
        return all(match(e, g, own) for e, g in zip(exp, got))
    return exp == got


def _is_exc_got(y):
    return isinstance(y, tuple) and len(y) >= 2 and y[0] == 'EXC'


# ----------------------------------------------------------------------------- probes
class LedgerShadow(dict):
    """Swapped in for server._uid_to_futures before __enter__.  __setitem__ runs inside the server's own
    critical section, so it sees exactly the state the code guards."""

    def __init__(self, capacity=None):
        super().__init__()
        self.capacity = capacity
        self.max_len = 0
        self.inserts = 0
        self.collisions = []
        self.misses = []
        self.pops = 0
        self._mu = threading.Lock()

    def __setitem__(self, k, v):
        with self._mu:
            if k in self:
                self.collisions.append(k)
            super().__setitem__(k, v)
            self.inserts += 1
            n = len(self)
            if n > self.max_len:
                self.max_len = n

    def pop(self, k, *default):
        with self._mu:
            if k in self:
                self.pops += 1
                return super().pop(k)
            self.misses.append(k)
        if default:
            return default[0]
        raise KeyError(k)


def install_ledger_shadow(server):
    try:
        if type(server._uid_to_futures) is dict and not server._uid_to_futures:
            sh = LedgerShadow(server.capacity)
            server._uid_to_futures = sh
            return sh
    except Exception:
        pass
    return None


class AdvId:
    """Adversarial-but-legal id(): small integers, unique among live objects, recycled only after the
    previous holder has been finalised, under a reuse policy (fresh / lifo / fifo / random)."""

    def __init__(self, policy='lifo', seed=0):
        self.policy = policy
        self.rng = random.Random(seed)
        self.free = []
        self.next = 1
        self.live = {}
        self.lock = threading.Lock()
        self.calls = 0
        self.reuses = 0

    def __call__(self, obj):
        key = id(obj)
        with self.lock:
            self.calls += 1
            if key in self.live:
                return self.live[key]
            if self.free and self.policy != 'fresh':
                if self.policy == 'lifo':
                    v = self.free.pop()
                elif self.policy == 'fifo':
                    v = self.free.pop(0)
                else:
                    v = self.free.pop(self.rng.randrange(len(self.free)))
                self.reuses += 1
            else:
                v = self.next
                self.next += 1
            self.live[key] = v
        try:
            weakref.finalize(obj, self._release, key, v)
        except TypeError:
            with self.lock:
                self.live.pop(key, None)
            return key
        return v

    def _release(self, key, v):
        with self.lock:
            if self.live.get(key) == v:
                del self.live[key]
                self.free.append(v)

    def install(self, *modules):
        self._mods = []
        for m in modules:
            had = 'id' in vars(m)
            old = vars(m).get('id')
            m.id = self
            self._mods.append((m, had, old))
        return self

    def uninstall(self):
        for m, had, old in self._mods:
            if had:
                m.id = old
            else:
                try:
                    del m.id
                except AttributeError:
                    pass


def fuzz_targets(fz, server_side=True):
    """Register the mpserver functions the schedule fuzzer perturbs."""
    import mpservice.mpserver._server as SV
    import mpservice.mpserver._servlet as SL
    import mpservice.mpserver._worker as W

    fz.add(SV.Server._enqueue, SV.Server._gather_output, SV.Server._wait_for_result,
           SL.EnsembleServlet._enqueue, SL.EnsembleServlet._dequeue, SL.SwitchServlet._enqueue,
           W.Worker._start_single, W.Worker._start_batch, W.Worker._build_input_batches, W.Worker._get_input_batch)
    fz.add(SV.AsyncServer._gather_output)
    return fz


def judge_outcome(tree, tok, got):
    """Does the normalised outcome `got` equal the reference meaning of `tree` on the request's own token?

    Batching makes one thing legitimately nondeterministic: a request co-batched with a poisoned request
    fails at that leaf with the batch's BatchBoom.  So the outcome may match the interpretation with any
    subset of the *truly batching* leaves (batch_size > 1) forced to fail -- and a forced failure only
    matches a BatchBoom that names this request and a real poisoner (AnyBatchWith)."""
    import itertools

    own = (tok[1], tok[2])
    exp0 = interpret(tree, tok, tok)
    if match(exp0, got, own):
        return True, exp0
    batched = [leaf[1] for leaf in leaves(tree) if leaf[3] and leaf[3] > 1]
    for r in range(1, len(batched) + 1):
        for sub in itertools.combinations(batched, r):
            if match(interpret(tree, tok, tok, frozenset(sub)), got, own):
                return True, exp0
    return False, exp0
