"""Schedule fuzzer: sys.monitoring LINE events, enabled locally on chosen code objects; at each
event a seeded RNG decides whether the running thread sleeps (0 = bare GIL yield ... a few ms).
It only ever *delays* a statement, which is always a schedule the program can have (DESIGN 3.2).

Targeted sites: (function, source-text pattern [, occurrence]) -> the line of the first statement
*after* the matching line (or the matching line itself with where='at') gets its own probability
and delay.  A pattern that no longer matches is recorded in `missing_sites` and otherwise ignored.
"""
from __future__ import annotations

import hashlib
import inspect
import random
import sys
import threading
import time
import types

TOOL_ID = 4
_mon = sys.monitoring


def code_objects(func_or_code, recursive=True):
    """The code object of a function/method/class-body and of everything nested in it."""
    obj = func_or_code
    if isinstance(obj, (staticmethod, classmethod)):
        obj = obj.__func__
    if isinstance(obj, type):
        out = []
        for v in vars(obj).values():
            if isinstance(v, (types.FunctionType, staticmethod, classmethod, property)):
                if isinstance(v, property):
                    for f in (v.fget, v.fset):
                        if f is not None:
                            out.extend(code_objects(f, recursive))
                else:
                    out.extend(code_objects(v, recursive))
        return out
    if hasattr(obj, '__wrapped__') and not hasattr(obj, '__code__'):
        obj = obj.__wrapped__
    if hasattr(obj, '__func__'):
        obj = obj.__func__
    code = obj if isinstance(obj, types.CodeType) else obj.__code__
    out = [code]
    if recursive:
        for c in code.co_consts:
            if isinstance(c, types.CodeType):
                out.extend(code_objects(c, True))
    return out


class SchedFuzz:
    DELAYS = (0.0, 0.0, 0.00005, 0.0002, 0.001)

    def __init__(self, seed=0, p=0.03, delays=None, changepoints=0, changepoint_delay=0.02,
                 max_events_sig=4000):
        self.rng = random.Random(seed)
        self.p = p
        self.delays = tuple(delays) if delays else self.DELAYS
        self._codes = []
        self._sites = {}  # (code, line) -> (prob, delay or None)
        self.missing_sites = []
        self._lock = threading.Lock()
        self.line_events = 0
        self.injections = 0
        self.sites_injected = set()
        self.sites_seen = set()
        self.site_hits = {}
        self._last_thread = None
        self._sig = hashlib.blake2b(digest_size=8)
        self._switches = 0
        self._max_sig = max_events_sig
        self._changepoints = set()
        self._n_changepoints = changepoints
        self._changepoint_delay = changepoint_delay
        self._active = False
        self.threads_seen = set()

    # ---- configuration
    def add(self, *funcs, recursive=True):
        for f in funcs:
            try:
                for c in code_objects(f, recursive):
                    if c not in self._codes:
                        self._codes.append(c)
            except Exception as e:  # attachment point missing: lower sensitivity, never an alarm
                self.missing_sites.append(f'func:{getattr(f, "__name__", f)!r}:{e!r}')
        return self

    def add_site(self, func, pattern, prob=0.5, delay=0.005, where='after', occurrence=0, name=None):
        """Targeted delay around the source line of `func` that contains `pattern`."""
        try:
            codes = code_objects(func, True)
            hit = None
            # the source text of an outer function contains its nested functions: the site belongs to the code
            # object whose own line table covers the matching line (the innermost one)
            try:
                src, start = inspect.getsourcelines(codes[0])
            except (OSError, TypeError):
                src, start = [], 0
            k = 0
            target_line = None
            for i, line in enumerate(src):
                if pattern in line:
                    if k == occurrence:
                        target_line = start + i
                        break
                    k += 1
            if target_line is not None:
                for c in codes:
                    own = {ln for (_, _, ln) in c.co_lines() if ln is not None}
                    first = c.co_firstlineno
                    if target_line in own and not (c is not codes[0] and target_line == first and False):
                        # prefer the innermost: later entries of `codes` are nested deeper
                        hit = (c, target_line)
                if hit is None:
                    # the matching line itself carries no instruction (e.g. a `def` line or a multi-line statement): take the
                    # innermost code object whose span contains it
                    for c in codes:
                        own = sorted({ln for (_, _, ln) in c.co_lines() if ln is not None})
                        if own and own[0] <= target_line <= own[-1]:
                            hit = (c, target_line)
            if hit is None:
                self.missing_sites.append(name or pattern)
                return self
            c, lineno = hit
            lines = sorted({ln for (_, _, ln) in c.co_lines() if ln is not None})
            if where == 'after':
                later = [ln for ln in lines if ln > lineno]
                if not later:
                    self.missing_sites.append(name or pattern)
                    return self
                lineno = later[0]
            elif lineno not in lines:
                later = [ln for ln in lines if ln >= lineno]
                if not later:
                    self.missing_sites.append(name or pattern)
                    return self
                lineno = later[0]
            if c not in self._codes:
                self._codes.append(c)
            self._sites[(c, lineno)] = (prob, delay, name or pattern)
        except Exception as e:
            self.missing_sites.append(f'{name or pattern}:{e!r}')
        return self

    def add_handler_sites(self, *funcs, prob=0.5, delay=0.015, name='exception-handler-entry'):
        """Targeted delay at the entry of every exception handler of the given functions.  Timeouts of polling loops surface
        as exceptions (queue.Empty / Full, TimeoutError): holding the thread right after its timed wait expired, before it acts
        on what it believes, is the schedule that exposes check-then-act races around polling.  Only delays; always legal."""
        import dis

        for f in funcs:
            try:
                for c in code_objects(f, True):
                    try:
                        entries = dis.Bytecode(c).exception_entries
                    except Exception:
                        continue
                    off2line = {}
                    cur = None
                    for ins in dis.get_instructions(c):
                        if ins.starts_line is not None:
                            cur = ins.starts_line if isinstance(ins.starts_line, int) else cur
                        if getattr(ins, 'positions', None) is not None and ins.positions.lineno is not None:
                            cur = ins.positions.lineno
                        off2line[ins.offset] = cur
                    for e in entries:
                        ln = off2line.get(e.target)
                        if ln is None:
                            continue
                        if c not in self._codes:
                            self._codes.append(c)
                        self._sites.setdefault((c, ln), (prob, delay, name))
            except Exception as e:
                self.missing_sites.append(f'handlers:{getattr(f, "__name__", f)!r}:{e!r}')
        return self

    # ---- run
    def start(self):
        if self._active:
            return self
        try:
            _mon.use_tool_id(TOOL_ID, 'vf-schedfuzz')
        except ValueError:
            _mon.free_tool_id(TOOL_ID)
            _mon.use_tool_id(TOOL_ID, 'vf-schedfuzz')
        _mon.register_callback(TOOL_ID, _mon.events.LINE, self._on_line)
        for c in self._codes:
            _mon.set_local_events(TOOL_ID, c, _mon.events.LINE)
        if self._n_changepoints:
            # change points are expressed in event counts; chosen lazily over the first 5000 events
            self._changepoints = {self.rng.randrange(1, 5000) for _ in range(self._n_changepoints)}
        self._active = True
        return self

    def stop(self):
        if not self._active:
            return
        for c in self._codes:
            try:
                _mon.set_local_events(TOOL_ID, c, 0)
            except Exception:
                pass
        _mon.register_callback(TOOL_ID, _mon.events.LINE, None)
        try:
            _mon.free_tool_id(TOOL_ID)
        except Exception:
            pass
        self._active = False

    def __enter__(self):
        return self.start()

    def __exit__(self, *a):
        self.stop()

    def _on_line(self, code, line):
        tid = threading.get_ident()
        d = None
        with self._lock:
            self.line_events += 1
            n = self.line_events
            key = (code.co_name, line)
            if tid != self._last_thread:
                self._last_thread = tid
                self._switches += 1
                if self._switches <= self._max_sig:
                    self._sig.update(f'{threading.current_thread().name.split("-")[0]}:{code.co_name}:{line};'.encode())
                self.threads_seen.add(tid)
            site = self._sites.get((code, line))
            r = self.rng.random()
            if site is not None:
                self.site_hits[site[2]] = self.site_hits.get(site[2], 0) + 1
                if r < site[0]:
                    d = site[1]
            elif n in self._changepoints:
                d = self._changepoint_delay
            elif r < self.p:
                d = self.delays[self.rng.randrange(len(self.delays))]
            if d is not None:
                self.injections += 1
                self.sites_injected.add(key)
        if d is not None:
            time.sleep(d)

    # ---- evidence
    def signature(self):
        return self._sig.hexdigest()

    def stats(self):
        return {
            'line_events': self.line_events,
            'injections': self.injections,
            'sites_injected': len(self.sites_injected),
            'thread_switches': self._switches,
            'threads_seen': len(self.threads_seen),
            'signature': self.signature(),
            'site_hits': dict(self.site_hits),
            'missing_sites': list(self.missing_sites),
        }


class NullFuzz:
    """Stand-in when a case runs without the fuzzer."""

    line_events = 0

    def add(self, *a, **k):
        return self

    def add_site(self, *a, **k):
        return self

    def start(self):
        return self

    def stop(self):
        pass

    def __enter__(self):
        return self

    def __exit__(self, *a):
        pass

    def stats(self):
        return {'line_events': 0, 'injections': 0, 'sites_injected': 0, 'thread_switches': 0,
                'threads_seen': 0, 'signature': '', 'site_hits': {}, 'missing_sites': []}


def merge_stats(acc, st):
    """Accumulate fuzz stats over cases (in the parent)."""
    acc['line_events'] = acc.get('line_events', 0) + st.get('line_events', 0)
    acc['injections'] = acc.get('injections', 0) + st.get('injections', 0)
    acc['thread_switches'] = acc.get('thread_switches', 0) + st.get('thread_switches', 0)
    acc['max_sites_injected'] = max(acc.get('max_sites_injected', 0), st.get('sites_injected', 0))
    sigs = acc.setdefault('_sigs', set())
    if st.get('signature'):
        sigs.add(st['signature'])
    sh = acc.setdefault('site_hits', {})
    for k, v in st.get('site_hits', {}).items():
        sh[k] = sh.get(k, 0) + v
    ms = acc.setdefault('missing_sites', [])
    for m in st.get('missing_sites', []):
        if m not in ms:
            ms.append(m)
    return acc


def finish_stats(acc):
    out = dict(acc)
    out['interleaving_signatures'] = len(out.pop('_sigs', ()))
    return out
