"""Shared harness for C01 / C08 / C16: drive fifo_stream / async_fifo_stream / the parmap variants
with unique tokens, an instrumented source, controlled completion order and a seeded failure plan;
return what the consumer observed plus the ledger's counters."""
from __future__ import annotations

import asyncio
import concurrent.futures
import threading
import time

from .gates import AsyncController, Controller, CountingSource, Ledger
from .targets import Boom, Reject, norm_exc


def expected_outputs(items, fail, reject, return_x, return_exceptions, preproc, errval=(), subfail=()):
    """Reference meaning: list of outputs and the terminal ('END',) or ('RAISED', exc)."""
    out = []
    for x in items:
        if preproc and x in reject:
            y = norm_exc(Reject(x))
            failed = True
        elif x in subfail:
            # the submission itself (the call of `func`) raises: the stream fails here, whatever return_exceptions says
            return out, ('RAISED', norm_exc(Reject('submit', x)))
        elif x in fail:
            y = norm_exc(Boom(x))
            failed = True
        elif x in errval:
            # the worker *returns* an exception object: an ordinary result whatever return_exceptions says
            y = norm_exc(ValueError('val', x))
            failed = False
        else:
            y = ('f', ('p', x) if preproc else x)
            failed = False
        if failed and not return_exceptions:
            return out, ('RAISED', y)
        out.append((x, y) if return_x else y)
    return out, ('END',)


def _mk_preproc(reject):
    def preprocessor(x):
        if x in reject:
            raise Reject(x)
        return ('p', x)

    return preprocessor


def _tok(xx):
    return xx[1] if isinstance(xx, tuple) and len(xx) == 2 and xx[0] == 'p' else xx


def consume(it, ledger, pause=None, stop_after=None):
    out = []
    term = ('END',)
    k = 0
    try:
        for z in it:
            ledger.receive()
            out.append(norm_exc(z))
            k += 1
            if pause:
                p = pause(k)
                if p:
                    time.sleep(p)
            if stop_after is not None and k >= stop_after:
                term = ('STOPPED',)
                break
    except Exception as e:  # noqa: BLE001
        term = ('RAISED', norm_exc(e))
    finally:
        close = getattr(it, 'close', None)
        if close:
            close()
    return out, term


def run_fifo_direct(S, items, *, capacity, return_x, return_exceptions, fail=(), reject=(), preproc=False, errval=(), subfail=(),
                    controller: Controller, ledger: Ledger, consumer_pause=None, src_pause=None, stop_after=None):
    """fifo_stream whose `func` returns futures completed by the controller."""
    idx = {x: i for i, x in enumerate(items)}
    src = CountingSource(items, ledger, pause=src_pause)

    def func(xx, **kw):
        x = _tok(xx)
        if x in subfail:
            raise Reject('submit', x)
        fut = concurrent.futures.Future()
        ledger.enter(x)

        def complete():
            ledger.leave(x)
            if fut.cancelled():
                return
            if x in fail:
                fut.set_exception(Boom(x))
            elif x in errval:
                fut.set_result(ValueError('val', x))
            else:
                fut.set_result(('f', xx))

        controller.register(idx[x], complete)
        return fut

    kw = {}
    if preproc:
        kw['preprocessor'] = _mk_preproc(reject)
    it = S.fifo_stream(src, func, capacity=capacity, return_x=return_x, return_exceptions=return_exceptions, **kw)
    out, term = consume(it, ledger, consumer_pause, stop_after)
    return out, term, src


def run_parmap_thread(S, items, *, concurrency, return_x, return_exceptions, fail=(), errval=(), controller: Controller,
                      ledger: Ledger, consumer_pause=None, src_pause=None, stop_after=None):
    """Stream.parmap(executor='thread') whose worker calls block on gates opened by the controller."""
    idx = {x: i for i, x in enumerate(items)}
    src = CountingSource(items, ledger, pause=src_pause)

    def work(x):
        ev = threading.Event()
        ledger.enter(x)
        controller.register(idx[x], ev.set)
        ev.wait()
        ledger.leave(x)
        if x in fail:
            raise Boom(x)
        if x in errval:
            return ValueError('val', x)
        return ('f', x)

    st = S.Stream(src).parmap(work, executor='thread', concurrency=concurrency, return_x=return_x,
                              return_exceptions=return_exceptions)
    out, term = consume(iter(st), ledger, consumer_pause, stop_after)
    return out, term, src


class AsyncCountingSource:
    def __init__(self, items, ledger=None):
        self.items = list(items)
        self.i = 0
        self.ledger = ledger
        self.pulls = 0

    def __aiter__(self):
        return self

    async def __anext__(self):
        if self.i >= len(self.items):
            raise StopAsyncIteration
        x = self.items[self.i]
        self.i += 1
        self.pulls += 1
        if self.ledger is not None:
            self.ledger.pull()
        return x


async def aconsume(ait, ledger, stop_after=None):
    out = []
    term = ('END',)
    k = 0
    try:
        async for z in ait:
            ledger.receive()
            out.append(norm_exc(z))
            k += 1
            if stop_after is not None and k >= stop_after:
                term = ('STOPPED',)
                break
    except Exception as e:  # noqa: BLE001
        term = ('RAISED', norm_exc(e))
    finally:
        aclose = getattr(ait, 'aclose', None)
        if aclose:
            await aclose()
    return out, term


async def run_async_fifo_direct(S, items, *, capacity, return_x, return_exceptions, fail=(), reject=(),
                                preproc=False, errval=(), subfail=(), controller: AsyncController, ledger: Ledger, stop_after=None):
    idx = {x: i for i, x in enumerate(items)}
    src = AsyncCountingSource(items, ledger)
    loop = asyncio.get_running_loop()

    async def func(xx, **kw):
        x = _tok(xx)
        if x in subfail:
            raise Reject('submit', x)
        fut = loop.create_future()
        ledger.enter(x)

        def complete():
            ledger.leave(x)
            if fut.done():
                return
            if x in fail:
                fut.set_exception(Boom(x))
            elif x in errval:
                fut.set_result(ValueError('val', x))
            else:
                fut.set_result(('f', xx))

        controller.register(idx[x], complete)
        return fut

    kw = {}
    if preproc:
        kw['preprocessor'] = _mk_preproc(reject)
    ait = S.async_fifo_stream(src, func, capacity=capacity, return_x=return_x, return_exceptions=return_exceptions, **kw)
    out, term = await aconsume(ait, ledger, stop_after)
    return out, term, src
