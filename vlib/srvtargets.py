"""Instrumented Worker classes for the mpserver properties (C02 C04 C06 C07 C09 C11 C16 C20).

Requests are unique tagged tokens:  ('tok', client, seq, plan)  where plan is a tuple of
(tag, action, arg) triples telling the worker tagged `tag` what to do with this request:
  ('A', 'fail', None|cls)  call raises Boom(tag, token id), or the class named by cls (vlib.targets.handler_exc_class)
  ('A', 'sleep', 0.01)     call sleeps
  ('A', 'reject', None)    preprocess raises Reject(tag, token id)
  ('A', 'poison', None)    (batched call) the whole batch raises BatchBoom(tag, ids of the batch)
  ('A', 'die', None)       call raises SystemExit (the worker ends)
A stage's result for value v is (tag, v), so the outcome of a servlet tree is a nested term that
identifies the request and every stage that produced it.

Every `call` is logged (tag, pid, worker index, list of request ids in the batch | id): in memory for
thread workers (CALL_LOG) and, when log_dir is given, one append-only file per (tag, pid, index)."""
from __future__ import annotations

import json
import logging
import os
import threading
import time

from mpservice.mpserver import Worker

from .targets import Boom, Reject


class BatchBoom(Exception):
    pass


class InitBoom(Exception):
    pass


CALL_LOG = []  # thread workers, same process: (tag, worker_index, [ids] | id, batched)
CALL_LOCK = threading.Lock()
ACTIVE = {}  # tag -> number of calls currently running (thread workers)
PROBE = None  # optional callable sampled inside every call of a thread worker (e.g. server.backlog)
MARK = 'SITE-MARK-7f3a'  # appears in the source line that raises, hence in tracebacks


def root(v):
    """The ('tok', ...) tuple inside a (possibly nested) value; None if there is none."""
    if isinstance(v, tuple):
        if len(v) == 4 and v[0] == 'tok':
            return v
        for a in v:
            r = root(a)
            if r is not None:
                return r
    elif isinstance(v, list):
        for a in v:
            r = root(a)
            if r is not None:
                return r
    return None


def tid(v):
    r = root(v)
    return None if r is None else (r[1], r[2])


def plan_for(v, tag):
    r = root(v)
    if r is None:
        return []
    return [(a, arg) for (t, a, arg) in r[3] if t == tag]


def _deep_fail(depth, tag, t):
    # alternates with _deep_fail_b so that the traceback formatter does not collapse the frames
    if depth > 0:
        return _deep_fail_b(depth - 1, tag, t)
    raise Boom(tag, t)  # SITE-MARK-7f3a call (deep)


def _deep_fail_b(depth, tag, t):
    if depth > 0:
        return _deep_fail(depth - 1, tag, t)
    raise Boom(tag, t)  # SITE-MARK-7f3a call (deep)


class TagWorker(Worker):
    def __init__(self, *, tag='A', log_dir=None, fail_init_index=None, fail_init_flag=None, nstream=0, cleanup_logs=0, fuzz=None,
                 base_sleep=0.0, fail_init_kind=None, **kwargs):
        super().__init__(**kwargs)
        self.tag = tag
        self.log_dir = log_dir
        self._logf = None
        if fail_init_index is not None and self.worker_index == fail_init_index:
            # a transient failure when a flag file is named: it fails only while that file exists
            if fail_init_flag is None or os.path.exists(fail_init_flag):
                if fail_init_kind == 'osexit':
                    # the worker PROCESS dies hard while it initialises (killed for memory, a crashing extension module): no handshake at all
                    os._exit(3)
                if fail_init_kind == 'sysexit0':
                    # ... or leaves with the 'success' code: still a worker that did not come up
                    raise SystemExit(0 if self.worker_index % 2 else None)
                if fail_init_kind == 'sysexit':
                    # a worker that gives up during set-up the way scripts do
                    raise SystemExit(f'cannot initialise {tag}[{self.worker_index}]')
                raise InitBoom(tag, self.worker_index)  # SITE-MARK-7f3a init
        if nstream:
            self.num_stream_threads = nstream
        self.preprocess = self._preprocess
        self.cleanup_logs = cleanup_logs
        self.base_sleep = base_sleep
        if log_dir:
            self._logf = open(os.path.join(log_dir, f'calls-{tag}-{os.getpid()}-{self.worker_index}.jsonl'), 'a', buffering=1)
        self._fz = None
        if fuzz or os.environ.get('VERIF_FUZZ_CHILD'):
            self._start_fuzz(fuzz or int(os.environ.get('VERIF_FUZZ_CHILD', '0')))

    def _start_fuzz(self, seed):
        import multiprocessing

        if multiprocessing.current_process().name == 'MainProcess':
            return  # thread workers are fuzzed by the case itself
        try:
            from . import schedfuzz
            import mpservice.mpserver._worker as W

            self._fz = schedfuzz.SchedFuzz(seed=seed + self.worker_index, p=0.02)
            self._fz.add(W.Worker._start_single, W.Worker._start_batch, W.Worker._build_input_batches, W.Worker._get_input_batch)
            self._fz.start()
        except Exception:
            self._fz = None

    def _preprocess(self, x):
        if root(x) is None:
            # like any validating preprocess: it only understands requests.  (The library must never hand it an upstream
            # failure or an end marker.)
            raise TypeError(f'preprocess of {self.tag} got a non-request object of type {type(x).__name__}')  # SITE-MARK-7f3a strict
        for a, arg in plan_for(x, self.tag):
            if a == 'reject':
                if arg == 'const':
                    raise ValueError('bad input')  # SITE-MARK-7f3a preprocess-const (the same class and message for every request)
                raise Reject(self.tag, tid(x))  # SITE-MARK-7f3a preprocess
        return x

    def _log(self, ids, batched):
        with CALL_LOCK:
            CALL_LOG.append((self.tag, self.worker_index, ids, batched))
        if self._logf is not None:
            self._logf.write(json.dumps([self.tag, self.worker_index, ids, batched]) + '\n')

    def call(self, x):
        tag = self.tag
        with CALL_LOCK:
            ACTIVE[tag] = ACTIVE.get(tag, 0) + 1
        try:
            if PROBE is not None:
                PROBE()
            if self.batch_size > 0:
                if not isinstance(x, list):
                    self._log(['NOT-A-LIST', repr(x)[:100]], True)
                    raise TypeError('batched worker called with a non-list')
                ids = [tid(v) if root(v) is not None else ['BAD', repr(v)[:80]] for v in x]
                self._log(ids, True)
                if self.base_sleep:
                    time.sleep(self.base_sleep)
                for v in x:
                    for a, arg in plan_for(v, tag):
                        if a == 'sleep':
                            time.sleep(arg)
                for v in x:
                    for a, arg in plan_for(v, tag):
                        if a == 'die':
                            raise SystemExit(f'{tag} gives up')  # not an Exception: by design this ends the worker (and its servlet)
                for v in x:
                    for a, arg in plan_for(v, tag):
                        if a == 'poison':
                            raise BatchBoom(tag, [list(i) for i in ids])  # SITE-MARK-7f3a batch
                return [(tag, v) for v in x]
            else:
                if root(x) is None:
                    self._log(['BAD', repr(x)[:80]], False)
                else:
                    self._log(tid(x), False)
                if self.base_sleep:
                    time.sleep(self.base_sleep)
                for a, arg in plan_for(x, tag):
                    if a == 'sleep':
                        time.sleep(arg)
                    elif a == 'die':
                        raise SystemExit(f'{tag} gives up')
                    elif a == 'return-unpicklable':
                        from .targets import Unpicklable

                        return (tag, tid(x), Unpicklable(arg))  # a result that cannot cross the next process boundary
                    elif a == 'return-unloadable':
                        from .targets import Unloadable

                        return (tag, tid(x), Unloadable(arg))  # a result that pickles here and cannot be rebuilt by the receiver
                    elif a == 'raise-unpicklable':
                        from .targets import Unpicklable

                        raise Boom(tag, tid(x), Unpicklable(arg))  # SITE-MARK-7f3a call (an exception whose payload cannot be pickled)
                    elif a == 'return-exc':
                        return Boom(tag, tid(x))  # returned, not raised: the library treats an exception value as this request's failure
                    elif a == 'fail':
                        if arg == 'const':
                            raise ValueError('bad input')  # SITE-MARK-7f3a call-const (the same class and message for every request)
                        if isinstance(arg, int):
                            _deep_fail(arg, tag, tid(x))  # fails `arg` call levels below call()
                        if arg:
                            # user code may raise any class, also the ones the library itself uses for control flow
                            from .targets import handler_exc_class

                            raise handler_exc_class(arg)(tag, tid(x))  # SITE-MARK-7f3a call
                        raise Boom(tag, tid(x))  # SITE-MARK-7f3a call
                return (tag, x)
        finally:
            with CALL_LOCK:
                ACTIVE[tag] -= 1

    def cleanup(self, exc=None):
        if self.cleanup_logs:
            lg = logging.getLogger('vf.worker')
            for i in range(self.cleanup_logs):
                lg.warning('cleanup-record %s %d %d', self.tag, self.worker_index, i)
        if self._logf is not None:
            self._logf.close()
        if self._fz is not None:
            self._fz.stop()


def read_call_logs(log_dir):
    out = []
    for fn in sorted(os.listdir(log_dir)):
        if fn.startswith('calls-'):
            for line in open(os.path.join(log_dir, fn)):
                line = line.strip()
                if line:
                    try:
                        out.append(json.loads(line))
                    except ValueError:
                        pass
    return out
