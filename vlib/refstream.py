"""Reference meaning of the Stream operators (lazy generators, written independently of the
implementation) and the operator alphabet used by C03.  An operator is a JSON-able descriptor
[name, params...]; `apply_real` chains it onto a mpservice Stream, `apply_ref` onto a generator."""
from __future__ import annotations

import itertools
import zlib
from collections import deque

from .targets import Boom, norm_exc


def khash(x):
    return zlib.crc32(repr(norm_exc(x)).encode())


# ---- worker functions (generic: accept any element)
def f_tag(x):
    return ('m', x)


def f_tag_kw(x, *, suffix='-', times=1):
    return ('k', x, suffix * times)


def f_fail5(x):
    if khash(x) % 5 == 0:
        raise Boom('f5', khash(x) % 1000)
    return ('f', x)


def f_ident(x):
    # exception objects travelling as ordinary elements come back as ordinary results
    return x


def f_errval(x):
    # *returns* (does not raise) an exception object for some elements
    if khash(x) % 3 == 0:
        return ValueError('as-value', khash(x) % 1000)
    return x


def f_none(x):
    # a side-effect function: returns None for most elements
    if khash(x) % 4 == 0:
        return ('kept', x)
    return None


def f_stop3(x):
    # a callable that lets StopIteration escape (e.g. next() on an exhausted helper iterator): an error, never "end of stream"
    if khash(x) % 3 == 0:
        raise StopIteration('f-stop', khash(x) % 1000)
    return ('s', x)


def pre_gate3(x):
    # a parmap `preprocessor` that rejects some elements: the rejection is that element's outcome, like a failure of the function
    if khash(x) % 3 == 1:
        raise ValueError('gate', khash(x) % 1000)
    return ('pre', x)


def p_stop4(x):
    if khash(x) % 4 == 0:
        raise StopIteration('p-stop', khash(x) % 1000)
    return khash(x) % 2 == 0


def p_even(x):
    return khash(x) % 2 == 0


def p_mod3_kw(x, *, r=0):
    return khash(x) % 3 != r


def p_fail7(x):
    if khash(x) % 7 == 0:
        raise Boom('p7', khash(x) % 1000)
    return khash(x) % 2 == 1


def k_mod2(x):
    return khash(x) % 2


def k_mod3_kw(x, *, m=3):
    return khash(x) % m


def acc(z, x):
    return khash((z, x)) % 100000


def acc_kw(z, x, *, salt=0):
    return khash((z, x, salt)) % 100000


def materialize(kv):
    return (kv[0], list(kv[1]))


FUNCS = {f.__name__: f for f in (pre_gate3, f_tag, f_tag_kw, f_fail5, f_ident, f_errval, f_none, f_stop3, p_stop4, p_even, p_mod3_kw, p_fail7, k_mod2, k_mod3_kw, acc, acc_kw)}

EXC = {'Boom': Boom, 'Exception': Exception, 'ValueError': ValueError, 'LookupError': LookupError, 'KeyError': KeyError, None: None}


def _exc(spec):
    if spec is None:
        return None
    if isinstance(spec, list):
        return tuple(EXC[s] for s in spec)
    return EXC[spec]


# ---- real
def apply_real(st, op, sink=None):
    name = op[0]
    if name == 'map':
        return st.map(FUNCS[op[1]], **(op[2] if len(op) > 2 else {}))
    if name == 'filter':
        return st.filter(FUNCS[op[1]], **(op[2] if len(op) > 2 else {}))
    if name == 'filter_exceptions':
        d, k = _exc(op[1]), _exc(op[2])
        if len(op) > 3 and op[3] == 'as-lists':
            # the documentation allows lists ("None (the default) or () or []")
            d = list(d) if isinstance(d, tuple) else d
            k = list(k) if isinstance(k, tuple) else k
        return st.filter_exceptions(d, k)
    if name == 'peek':
        if len(op) > 2:
            # exc_types given as a list (the annotation says Sequence; the docstring mentions [] and ())
            return st.peek(print_func=(sink.append if sink is not None else (lambda s: None)), interval=op[1], exc_types=[EXC[n] for n in op[2]])
        return st.peek(print_func=(sink.append if sink is not None else (lambda s: None)), interval=op[1])
    if name == 'head':
        return st.head(op[1])
    if name == 'tail':
        return st.tail(op[1])
    if name == 'batch':
        return st.batch(op[1])
    if name == 'unbatch':
        return st.unbatch()
    if name == 'groupby':
        return st.groupby(FUNCS[op[1]], **(op[2] if len(op) > 2 else {})).map(materialize)
    if name == 'accumulate':
        if op[2] == 'NOTSET':
            return st.accumulate(FUNCS[op[1]], **(op[3] if len(op) > 3 else {}))
        return st.accumulate(FUNCS[op[1]], op[2], **(op[3] if len(op) > 3 else {}))
    if name == 'buffer':
        return st.buffer(op[1])
    if name == 'parmap':
        return st.parmap(FUNCS[op[1]], executor='thread', concurrency=op[2], return_x=op[3], return_exceptions=op[4],
                         **(op[5] if len(op) > 5 else {}), **({'preprocessor': FUNCS[op[6]]} if len(op) > 6 else {}))
    if name == 'shuffle':
        return st.shuffle(op[1])
    raise ValueError(name)


# ---- reference
def apply_ref(g, op):
    name = op[0]
    if name == 'map':
        f = FUNCS[op[1]]
        kw = op[2] if len(op) > 2 else {}
        return (f(x, **kw) for x in g)
    if name == 'filter':
        f = FUNCS[op[1]]
        kw = op[2] if len(op) > 2 else {}
        return (x for x in g if f(x, **kw))
    if name == 'filter_exceptions':
        drop, keep = _exc(op[1]), _exc(op[2])

        def fe(g):
            for x in g:
                if isinstance(x, BaseException):
                    if keep is not None and isinstance(x, keep):
                        yield x
                    elif drop is not None and isinstance(x, drop):
                        continue
                    else:
                        raise x
                else:
                    yield x

        return fe(g)
    if name == 'peek':
        return (x for x in g)
    if name == 'head':
        return itertools.islice(g, op[1])
    if name == 'tail':
        def tl(g, n):
            d = deque(maxlen=n)
            for x in g:
                d.append(x)
            yield from d

        return tl(g, op[1])
    if name == 'batch':
        def bt(g, n):
            while True:
                b = list(itertools.islice(g, n))
                if not b:
                    return
                yield b

        return bt(iter(g), op[1])
    if name == 'unbatch':
        return (y for x in g for y in x)
    if name == 'groupby':
        f = FUNCS[op[1]]
        kw = op[2] if len(op) > 2 else {}

        def gb(g):
            cur_k, cur = None, None
            for x in g:
                k = f(x, **kw)
                if cur is None:
                    cur_k, cur = k, [x]
                elif k == cur_k:
                    cur.append(x)
                else:
                    yield (cur_k, cur)
                    cur_k, cur = k, [x]
            if cur is not None:
                yield (cur_k, cur)

        return gb(g)
    if name == 'accumulate':
        f = FUNCS[op[1]]
        kw = op[3] if len(op) > 3 else {}

        def ac(g):
            first = op[2] == 'NOTSET'
            z = None if first else op[2]
            for x in g:
                if first:
                    z = x
                    first = False
                else:
                    z = f(z, x, **kw)
                yield z

        return ac(g)
    if name == 'buffer':
        return (x for x in g)
    if name == 'parmap':
        f = FUNCS[op[1]]
        kw = op[5] if len(op) > 5 else {}
        rx, rexc = op[3], op[4]
        pre = FUNCS[op[6]] if len(op) > 6 else None

        def pm(g):
            for x in g:
                try:
                    y = f(x if pre is None else pre(x), **kw)
                except Exception as e:  # noqa: BLE001
                    if not rexc:
                        raise
                    y = e
                yield (x, y) if rx else y

        return pm(g)
    if name == 'shuffle':
        return (x for x in g)
    raise ValueError(name)


def alphabet(n):
    """Parameter-instantiated operators for inputs of length n."""
    big = n + 1
    ops = [
        ['map', 'f_tag'], ['map', 'f_fail5'], ['map', 'f_tag_kw', {'suffix': 's', 'times': 2}],
        ['filter', 'p_even'], ['filter', 'p_fail7'], ['filter', 'p_mod3_kw', {'r': 1}],
        ['filter_exceptions', 'Boom', None], ['filter_exceptions', None, 'Boom'], ['filter_exceptions', 'Exception', 'Boom'],
        ['filter_exceptions', None, None], ['filter_exceptions', ['ValueError', 'Boom'], 'LookupError'],
        ['filter_exceptions', [], ['KeyError'], 'as-lists'], ['filter_exceptions', ['ValueError', 'Boom'], [], 'as-lists'],
        ['peek', 1], ['peek', 3, ['ValueError', 'KeyError']], ['peek', 2, []],
        ['head', 1], ['head', 2], ['head', max(1, n)], ['head', big],
        ['tail', 1], ['tail', 2], ['tail', big],
        ['batch', 1], ['batch', 2], ['batch', big],
        ['unbatch'],
        ['groupby', 'k_mod2'], ['groupby', 'k_mod3_kw', {'m': 2}],
        ['accumulate', 'acc', 'NOTSET'], ['accumulate', 'acc', None], ['accumulate', 'acc_kw', 7, {'salt': 3}],
        ['buffer', 1], ['buffer', 3],
        ['parmap', 'f_tag', 1, False, False], ['parmap', 'f_fail5', 2, False, True], ['parmap', 'f_fail5', 2, True, False],
        ['parmap', 'f_tag_kw', 2, True, True, {'suffix': 'q'}],
        ['parmap', 'f_ident', 2, False, False], ['parmap', 'f_errval', 2, False, False], ['parmap', 'f_errval', 1, True, True], ['map', 'f_errval'], ['map', 'f_none'], ['parmap', 'f_none', 2, False, False],
        ['map', 'f_stop3'], ['filter', 'p_stop4'],
        ['parmap', 'f_tag', 2, False, True, {}, 'pre_gate3'], ['parmap', 'f_fail5', 2, True, True, {}, 'pre_gate3'], ['parmap', 'f_tag', 1, True, False, {}, 'pre_gate3'],
        ['shuffle', 2],
    ]
    return ops


ONE_TO_ONE = {'map', 'peek', 'accumulate', 'buffer', 'parmap'}


def kind_after(kind, op):
    """Element kinds: 'S' opaque scalars, 'L' lists. Returns the new kind or None if ill-formed."""
    name = op[0]
    if name == 'unbatch':
        return 'S' if kind == 'L' else None
    if name == 'batch':
        return 'L'
    if name in ('map', 'parmap', 'groupby', 'accumulate'):
        return 'S'
    return kind


def lookahead(op):
    if op[0] == 'buffer':
        return op[1] + 2
    if op[0] == 'parmap':
        return 2 * op[2] + 3
    return 0
