"""Completion-order controller (DESIGN 3.3) and the pull/receive/running ledger (C01, C08, C16).

Every concurrent call `i` registers itself as *pending* and is completed only when the controller
picks it.  The controller waits until the system has settled (no registration for a few ms --
a heuristic that only influences *which* order is explored, never a verdict) and then picks by
policy:  a priority list (smallest priority among the pending calls finishes next: FIFO, LIFO,
seeded random) or an explicit choice sequence (DFS enumeration of all feasible orders).
It always releases some pending call, so it cannot deadlock a correct implementation."""
from __future__ import annotations

import asyncio
import concurrent.futures
import threading
import time


class Ledger:
    """pulled / received / running counters guarded by one lock; invariants are evaluated in the
    thread that causes the event."""

    def __init__(self, gap_bound=None, running_bound=None):
        self.lock = threading.Lock()
        self.pulled = 0
        self.received = 0
        self.running = 0
        self.max_gap = 0
        self.max_running = 0
        self.gap_bound = gap_bound
        self.running_bound = running_bound
        self.violations = []
        self.calls = {}  # token -> number of calls
        self.completion_order = []
        self.max_gap_at_completion_out_of_order = 0

    def pull(self):
        with self.lock:
            self.pulled += 1
            g = self.pulled - self.received
            if g > self.max_gap:
                self.max_gap = g
            if self.gap_bound is not None and g > self.gap_bound and len(self.violations) < 3:
                self.violations.append(('gap', g, self.pulled, self.received))

    def receive(self):
        with self.lock:
            self.received += 1

    def enter(self, token):
        with self.lock:
            self.running += 1
            self.calls[token] = self.calls.get(token, 0) + 1
            if self.running > self.max_running:
                self.max_running = self.running
            if self.running_bound is not None and self.running > self.running_bound and len(self.violations) < 3:
                self.violations.append(('running', self.running))

    def leave(self, token):
        with self.lock:
            self.running -= 1
            self.completion_order.append(token)


class CountingSource:
    """Iterator over `items` that counts successful pulls in `ledger`; raises `fail_exc` instead of
    yielding the element at index `fail_at`; optional per-pull pause."""

    def __init__(self, items, ledger=None, fail_at=None, fail_exc=None, pause=None):
        self.items = list(items)
        self.i = 0
        self.ledger = ledger
        self.fail_at = fail_at
        self.fail_exc = fail_exc
        self.pause = pause
        self.pulls = 0
        self.exhausted_pulls = 0

    def __iter__(self):
        return self

    def __next__(self):
        if self.fail_at is not None and self.i == self.fail_at:
            self.fail_at = None
            raise self.fail_exc
        if self.pause:
            # the source is slow to produce element i (i == len(items): slow to report exhaustion)
            p = self.pause(self.i) if self.i <= len(self.items) else 0
            if p:
                time.sleep(p)
        if self.i >= len(self.items):
            self.exhausted_pulls += 1
            self.i = len(self.items) + 1
            raise StopIteration
        x = self.items[self.i]
        self.i += 1
        self.pulls += 1
        if self.ledger is not None:
            self.ledger.pull()
        return x


class Controller:
    """Thread-based controller.  `register(i, complete)` is called by the code under test's worker
    function (or the harness executor); `complete()` finishes call i."""

    def __init__(self, priorities=None, choices=None, settle=0.002, max_settle=0.05, hold_until_stall=False):
        self.priorities = priorities  # dict/list index -> priority (smaller first) or None
        self.choices = list(choices) if choices is not None else None
        self.settle = settle
        self.max_settle = max_settle
        self.lock = threading.Lock()
        self.cv = threading.Condition(self.lock)
        self.pending = {}  # index -> complete callable
        self.last_event = time.monotonic()
        self.order = []  # completion order (indices)
        self.widths = []  # number of candidates at each decision
        self.taken = []  # choice index taken at each decision
        self.stopped = False
        self.thread = None
        self.idle_cb = None
        self.hold_until_stall = hold_until_stall
        self.error = None

    def register(self, i, complete):
        with self.cv:
            self.pending[i] = complete
            self.last_event = time.monotonic()
            self.cv.notify_all()

    def touch(self):
        with self.cv:
            self.last_event = time.monotonic()

    def start(self):
        self.thread = threading.Thread(target=self._run, name='vf-controller', daemon=True)
        self.thread.start()
        return self

    def stop(self):
        with self.cv:
            self.stopped = True
            self.cv.notify_all()
        if self.thread is not None:
            self.thread.join(5)

    def _pick(self, cand):
        k = len(self.order)
        if self.choices is not None:
            c = self.choices[k] if k < len(self.choices) else 0
            if c >= len(cand):
                c = len(cand) - 1
            return c
        if self.priorities is None:
            return 0
        pr = self.priorities
        best = min(range(len(cand)), key=lambda j: (pr[cand[j]] if cand[j] < len(pr) else cand[j]))
        return best

    def _run(self):
        try:
            while True:
                with self.cv:
                    while not self.pending and not self.stopped:
                        self.cv.wait(0.05)
                    if self.stopped:
                        return
                    # settle
                    t_first = time.monotonic()
                    while True:
                        now = time.monotonic()
                        quiet = now - self.last_event
                        if quiet >= self.settle or now - t_first >= self.max_settle:
                            break
                        self.cv.wait(self.settle - quiet + 0.0002)
                        if self.stopped:
                            return
                    cand = sorted(self.pending)
                    j = self._pick(cand)
                    i = cand[j]
                    complete = self.pending.pop(i)
                    self.order.append(i)
                    self.widths.append(len(cand))
                    self.taken.append(j)
                    self.last_event = time.monotonic()
                complete()
        except BaseException as e:  # noqa: BLE001
            self.error = e


def next_prefix(widths, taken):
    """DFS successor of a completed run; None when the tree is exhausted."""
    k = len(taken) - 1
    while k >= 0:
        if taken[k] + 1 < widths[k]:
            return list(taken[:k]) + [taken[k] + 1]
        k -= 1
    return None


class AsyncController:
    """Same idea inside an event loop: settle = no registration during `rounds` consecutive
    `sleep(0)` turns."""

    def __init__(self, priorities=None, choices=None, rounds=4):
        self.priorities = priorities
        self.choices = list(choices) if choices is not None else None
        self.pending = {}
        self.order = []
        self.widths = []
        self.taken = []
        self.rounds = rounds
        self.version = 0
        self.stopped = False
        self.task = None

    def register(self, i, complete):
        self.pending[i] = complete
        self.version += 1

    def _pick(self, cand):
        k = len(self.order)
        if self.choices is not None:
            c = self.choices[k] if k < len(self.choices) else 0
            return min(c, len(cand) - 1)
        if self.priorities is None:
            return 0
        pr = self.priorities
        return min(range(len(cand)), key=lambda j: (pr[cand[j]] if cand[j] < len(pr) else cand[j]))

    async def _run(self):
        while not self.stopped:
            if not self.pending:
                await asyncio.sleep(0.0005)
                continue
            quiet = 0
            v = self.version
            while quiet < self.rounds:
                await asyncio.sleep(0)
                if self.version != v:
                    v = self.version
                    quiet = 0
                else:
                    quiet += 1
            if not self.pending:
                continue
            cand = sorted(self.pending)
            j = self._pick(cand)
            i = cand[j]
            complete = self.pending.pop(i)
            self.order.append(i)
            self.widths.append(len(cand))
            self.taken.append(j)
            complete()

    def start(self):
        self.task = asyncio.get_running_loop().create_task(self._run(), name='vf-async-controller')
        return self

    async def stop(self):
        self.stopped = True
        if self.task is not None:
            self.task.cancel()
            try:
                await self.task
            except (asyncio.CancelledError, Exception):
                pass


def make_priorities(policy, n, rng):
    if policy == 'fifo':
        return list(range(n))
    if policy == 'lifo':
        return [-i for i in range(n)]
    if policy == 'random':
        p = list(range(n))
        rng.shuffle(p)
        return p
    if policy == 'evenfirst':
        return [(i % 2) * n + i for i in range(n)]
    if policy == 'blocklifo':
        # reverse inside blocks of 3..5: i+k finishes before i
        out = []
        i = 0
        while i < n:
            k = rng.choice([2, 3, 4, 5])
            blk = list(range(i, min(n, i + k)))
            out.extend(reversed(blk))
            i += k
        pr = [0] * n
        for rank, idx in enumerate(out):
            pr[idx] = rank
        return pr
    raise ValueError(policy)
