"""In-process helpers used by case code: bounded waits, stack sampling, thread-death recorder,
resource census.  Nothing here decides a property by wall-clock alone: a bound exceeded is a
*hang* only if the stacks of all non-harness threads are identical in three samples 1 s apart
(DESIGN 3.1); otherwise it is 'inconclusive'."""
from __future__ import annotations

import gc
import multiprocessing
import os
import sys
import threading
import time
import traceback

HARNESS_PREFIX = 'vf-'


class Hang(Exception):
    """The operation did not finish within the bound and all stacks were stable."""

    def __init__(self, what, stacks):
        super().__init__(what)
        self.what = what
        self.stacks = stacks


class Inconclusive(Exception):
    """The bound was exceeded but the system was still moving."""


def _is_harness_thread(t):
    return t.name.startswith(HARNESS_PREFIX)


def stack_snapshot(skip_harness=True, limit=12):
    """{thread name: [frame strings]} for every thread (except harness threads)."""
    frames = sys._current_frames()
    out = {}
    for t in threading.enumerate():
        if skip_harness and _is_harness_thread(t):
            continue
        f = frames.get(t.ident)
        if f is None:
            continue
        st = traceback.extract_stack(f)[-limit:]
        out[f'{t.name}'] = [f'{os.path.basename(s.filename)}:{s.lineno}:{s.name}' for s in st]
    return out


def stable_stacks(samples=3, gap=1.0, include_main=True):
    """Take `samples` snapshots `gap` seconds apart; return (stable, last_snapshot)."""
    prev = None
    stable = True
    for i in range(samples):
        snap = stack_snapshot()
        if prev is not None and snap != prev:
            stable = False
        prev = snap
        if i + 1 < samples:
            time.sleep(gap)
    return stable, prev


def run_bounded(fn, bound, what='operation', daemon=True):
    """Run fn() in a helper thread; return its value, re-raise its exception.

    If it does not finish within `bound` seconds: sample stacks; all stable -> Hang (a
    violation witness); still changing -> wait one more bound, then Inconclusive.
    The helper thread is left behind (daemon) on a hang: the case runner process exits
    right after reporting."""
    box = {}

    def target():
        try:
            box['v'] = fn()
        except BaseException as e:  # noqa: BLE001
            box['e'] = e

    t = threading.Thread(target=target, name='case-body', daemon=daemon)
    t.start()
    t.join(bound)
    if t.is_alive():
        stable, snap = stable_stacks()
        if not t.is_alive():
            pass
        elif stable:
            raise Hang(what, snap)
        else:
            t.join(bound)
            if t.is_alive():
                stable, snap = stable_stacks()
                if t.is_alive():
                    if stable:
                        raise Hang(what, snap)
                    raise Inconclusive(f'{what}: still running after {2 * bound}s, stacks changing')
    if 'e' in box:
        raise box['e']
    return box.get('v')


class DeathRecorder:
    """Records exceptions that escape helper threads of the library (or any thread)."""

    def __init__(self):
        self.events = []
        self._lock = threading.Lock()
        self._installed = False

    def install(self):
        if self._installed:
            return self
        self._installed = True
        self._old_thook = threading.excepthook
        self._old_unraisable = sys.unraisablehook

        def thook(args):
            if args.exc_type is SystemExit:
                return
            with self._lock:
                self.events.append(
                    {
                        'kind': 'thread_excepthook',
                        'thread': getattr(args.thread, 'name', '?'),
                        'exc': repr(args.exc_value),
                        'tb': ''.join(traceback.format_tb(args.exc_traceback))[-1500:],
                    }
                )

        def uhook(u):
            with self._lock:
                self.events.append(
                    {'kind': 'unraisable', 'exc': repr(u.exc_value), 'obj': repr(u.object)[:200]}
                )

        threading.excepthook = thook
        sys.unraisablehook = uhook
        try:
            import mpservice.threading as mt

            self._mt = mt
            self._old_handle = mt.Thread.handle_exception

            def handle_exception(exc, _self=self):
                with _self._lock:
                    _self.events.append(
                        {
                            'kind': 'mpservice_thread_exception',
                            'thread': threading.current_thread().name,
                            'exc': repr(exc),
                            'tb': ''.join(traceback.format_tb(exc.__traceback__))[-1500:],
                        }
                    )

            mt.Thread.handle_exception = staticmethod(handle_exception)
        except Exception:  # probe is optional
            self._mt = None
        return self

    def uninstall(self):
        if not self._installed:
            return
        threading.excepthook = self._old_thook
        sys.unraisablehook = self._old_unraisable
        if self._mt is not None:
            self._mt.Thread.handle_exception = staticmethod(self._old_handle)
        self._installed = False

    def snapshot(self):
        with self._lock:
            return list(self.events)


def census():
    """Threads (non-harness), child processes, /dev/shm entries, fds."""
    threads = sorted(
        (t.name, t.daemon, type(t).__module__ + '.' + type(t).__name__)
        for t in threading.enumerate()
        if t is not threading.main_thread() and not _is_harness_thread(t) and t.name != 'case-body'
    )
    try:
        import psutil

        me = psutil.Process()
        kids = []
        for c in me.children(recursive=True):
            try:
                cmd = ' '.join(c.cmdline())
            except Exception:
                cmd = '?'
            if 'resource_tracker' in cmd:
                continue
            if c.status() == 'zombie':
                continue
            kids.append((c.pid, cmd[-80:]))
    except Exception:
        kids = [(p.pid, p.name) for p in multiprocessing.active_children()]
    try:
        shm = sorted(os.listdir('/dev/shm'))
    except OSError:
        shm = []
    return {'threads': threads, 'children': sorted(kids), 'shm': shm}


def leak_check(before, wait=5.0, ignore_thread=lambda name, daemon, cls: False, check_shm=False):
    """Poll until the census is back to `before` (threads/children/shm), up to `wait` s.

    Returns a dict of what is still extra (empty dict = clean).  The stdlib's daemon
    QueueFeederThread is reported separately and is never a leak verdict (DESIGN 3.5)."""
    deadline = time.monotonic() + wait
    extra = {}
    while True:
        gc.collect()
        now = census()
        bt = list(before['threads'])
        ext_t = []
        for th in now['threads']:
            if th in bt:
                bt.remove(th)
                continue
            ext_t.append(th)
        feeder = [t for t in ext_t if t[0].startswith('QueueFeederThread')]
        ext_t = [t for t in ext_t if not t[0].startswith('QueueFeederThread') and not ignore_thread(*t)]
        # asyncio default executor threads and the like are daemon=True stdlib pool threads
        bpids = {p for p, _ in before['children']}
        ext_c = [c for c in now['children'] if c[0] not in bpids]
        # /dev/shm is machine-global (other runner processes create entries too): only compared on request
        ext_s = [s for s in now['shm'] if s not in before['shm']] if check_shm else []
        extra = {}
        if ext_t:
            extra['threads'] = ext_t
        if ext_c:
            extra['children'] = ext_c
        if ext_s:
            extra['shm'] = ext_s
        if not extra or time.monotonic() > deadline:
            if feeder:
                extra_info = {'queue_feeder_threads': len(feeder)}
            else:
                extra_info = {}
            return extra, extra_info
        time.sleep(0.05)
