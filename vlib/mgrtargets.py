"""Hosted classes and agent processes for the manager properties (C13, C14)."""
from __future__ import annotations

import gc
import pickle
import traceback

from mpservice.multiprocessing.server_process import BaseProxy, ServerProcess, managed, managed_dict, managed_list

from .targets import Boom, norm_exc


class Box:
    """Custom hosted class."""

    def __init__(self, v=0):
        self.v = v
        self.items = []

    def get(self):
        return self.v

    def set(self, v):
        self.v = v

    def add(self, a, b=1, *, scale=1):
        return (a + b) * scale

    def echo(self, *args, **kwargs):
        return (args, kwargs)

    def boom(self, *args):
        raise Boom(*args)  # SITE-MARK-C14 boom

    def refuse(self, *things):
        raise ValueError('refused')  # the arguments (possibly proxies) are not kept anywhere

    def leave(self, code):
        raise SystemExit(code)  # SITE-MARK-C14 leave

    def make_list(self, n):
        return managed_list(list(range(n)))

    def make_dict(self, n):
        return managed_dict({i: i * i for i in range(n)})

    def make_box(self, v):
        return managed(v, typeid='Box')

    def keep(self, p):
        self.items.append(p)
        return len(self.items)

    def release(self):
        return self.items.pop()

    def n_kept(self):
        return len(self.items)

    def call_kept(self, i, method, *args, **kwargs):
        # use a stored proxy inside the server process (server-side proxies call the hosting server directly)
        return getattr(self.items[i], method)(*args, **kwargs)

    def make_own_list(self, n):
        # the hosted value stays reachable inside the server: mutations through the returned proxy must be visible here
        self.own = list(range(n))
        return managed_list(self.own)

    def own_snapshot(self):
        return list(self.own)

    def make_own_list_bare(self, n):
        # bare managed(): the typeid is derived from the type of the value
        self.own = list(range(n))
        return managed(self.own)

    def make_child_bare(self, v):
        # a user class registered under its own name, handed out with a bare managed(): the child stays reachable here
        self.child = Box(v)
        return managed(self.child)

    def child_value(self):
        return self.child.v

    def share_own(self):
        # hand out another proxy to the SAME object (it is hosted under the same id as long as it is still hosted)
        if not hasattr(self, 'own'):
            self.own = []
        return managed_list(self.own)

    def make_own_dict(self):
        self.own_d = {}
        return managed_dict(self.own_d)

    def own_dict_snapshot(self):
        return dict(self.own_d)


try:
    ServerProcess.register('Box', Box)
except ValueError:
    pass


class Holder:
    """A hosted class that creates a managed value of its own while it is being constructed (inside the server)."""

    def __init__(self, n=2):
        self.own = managed_list(list(range(n)))

    def own_proxy(self):
        return self.own

    def own_len(self):
        return len(self.own)

    def own_snapshot(self):
        return self.own[:]


try:
    ServerProcess.register('Holder', Holder)
except Exception:  # already registered (re-import)
    pass


class GCounter:
    def __init__(self):
        self.n = 0

    def incr(self, k=1):
        self.n += k
        return self.n

    def value(self):
        return self.n


class GStack:
    def __init__(self):
        self.items = []

    def push(self, x):
        self.items.append(x)
        return len(self.items)

    def pop(self):
        return self.items.pop()

    def value(self):
        return list(self.items)


def make_gadget(kind):
    """One typeid, a factory: the hosted objects differ in class, hence in their methods."""
    return GCounter() if kind == 'counter' else GStack()


try:
    ServerProcess.register('Gadget', callable=make_gadget)
except Exception:  # already registered (re-import)
    pass


class Shelf:
    """Registered with method_to_typeid: `items_proxy` returns the plain list, the server hosts it and hands out a proxy."""

    def __init__(self):
        self.items = []

    def items_proxy(self):
        return self.items

    def items_snapshot(self):
        return list(self.items)


try:
    ServerProcess.register('Shelf', Shelf, method_to_typeid={'items_proxy': 'ManagedList'})
except ValueError:
    pass


def describe_exc(e):
    from mpservice.multiprocessing.remote_exception import get_remote_traceback, is_remote_exception

    rem = is_remote_exception(e)
    return {'type': type(e).__name__, 'args': norm_exc(list(e.args)), 'remote': rem, 'tb': get_remote_traceback(e) if rem else ''.join(traceback.format_exception(type(e), e, e.__traceback__))[-1500:]}


def resolve_args(reg, args):
    out = []
    for a in args:
        if isinstance(a, tuple) and len(a) == 2 and a[0] == '@H':
            out.append(reg[a[1]])
        else:
            out.append(a)
    return out


def do_call(reg, handle, method, args, kwargs, store_as):
    """Call a method through the proxy `reg[handle]`; returns a plain description of the outcome."""
    p = reg[handle]
    try:
        if method == '@getattr':
            r = getattr(p, args[0])
        elif method == '@setattr':
            setattr(p, args[0], args[1])
            r = None
        elif method == '@delattr':
            delattr(p, args[0])
            r = None
        elif method == '@value-get':
            r = p.value
        elif method == '@value-set':
            p.value = args[0]
            r = None
        elif method == '@iadd':
            p += args[0]
            r = None
        elif method == '@imul':
            p *= args[0]  # in place: the name must still refer to the proxy afterwards
            r = None if isinstance(p, BaseProxy) else ('NAME-REBOUND-TO', type(p).__name__)
        elif method == '@iadd-check':
            p += args[0]
            r = None if isinstance(p, BaseProxy) else ('NAME-REBOUND-TO', type(p).__name__)
        elif method == '@iter':
            r = list(iter(p))  # dict proxies hand out an iterator proxy; list proxies are iterated through __getitem__
        elif method == '@str':
            r = str(p)  # the referent's repr, fetched through the server's fallback for missing methods
        else:
            r = getattr(p, method)(*resolve_args(reg, args), **(kwargs or {}))
    except BaseException as e:  # noqa: BLE001
        d = describe_exc(e)
        e = None
        return ('exc', d)
    if isinstance(r, BaseProxy):
        ident = r._token.id
        typeid = r._token.typeid
        if store_as is not None:
            reg[store_as] = r
        r = None
        return ('proxy', ident, typeid)
    if isinstance(r, (list, tuple, dict)) and _contains_proxy(r):
        desc = _describe_nested(r, reg, store_as)
        r = None
        return ('nested', desc)
    try:
        pickle.dumps(r)
    except Exception:
        r = repr(r)
    return ('val', r)


def _contains_proxy(r):
    if isinstance(r, BaseProxy):
        return True
    if isinstance(r, dict):
        return any(_contains_proxy(v) for v in r.values())
    if isinstance(r, (list, tuple)):
        return any(_contains_proxy(v) for v in r)
    return False


def _describe_nested(r, reg, store_as):
    return repr(type(r))


def agent_main(cmd_q, res_q):
    """Persistent agent process: keeps proxies in a registry and executes commands from the harness."""
    reg = {}
    while True:
        cmd = cmd_q.get()
        op = cmd[0]
        res = ('ok', None)
        try:
            if op == 'exit':
                res_q.put(('ok', None))
                # leave with whatever proxies are still alive in `reg` (their finalizers must release them)
                return len(reg)
            elif op == 'load':
                reg[cmd[1]] = pickle.loads(cmd[2])
                res = ('ok', reg[cmd[1]]._token.id)
            elif op == 'drop':
                reg.pop(cmd[1], None)
            elif op == 'dumps':
                res = ('ok', pickle.dumps(reg[cmd[1]]))
            elif op == 'call':
                res = ('ok', do_call(reg, cmd[1], cmd[2], cmd[3], cmd[4], cmd[5]))
            elif op == 'fork-use':
                # a child made with the stdlib *fork* start method inherits every proxy of this process by memory (no pickling);
                # it uses one of them and exits
                import multiprocessing as _mp
                import warnings

                with warnings.catch_warnings():
                    warnings.simplefilter('ignore')
                    c = _mp.get_context('fork').Process(target=_fork_child_use, args=(reg[cmd[1]],))
                    c.start()
                c.join(60)
                res = ('ok', c.exitcode)
                c = None
            elif op == 'gc':
                gc.collect()
            elif op == 'handles':
                res = ('ok', sorted(reg))
            elif op == 'shm-read':
                res = ('ok', bytes(reg[cmd[1]].buf[: cmd[2]]))
            elif op == 'shm-write':
                reg[cmd[1]].buf[cmd[2]] = cmd[3]
            else:
                res = ('err', f'unknown op {op}')
        except BaseException as e:  # noqa: BLE001
            res = ('err', repr(e) + ' ' + traceback.format_exc()[-800:])
            e = None
        res_q.put(res)
        res = None
        cmd = None


def _fork_child_use(p):
    if hasattr(p, '__len__'):
        len(p)
    elif hasattr(p, 'get'):
        p.get()
    else:
        p.size


def child_via_arg(p, anchor_len_expected=None):
    """Child process that received a proxy as an argument: use it, then exit with the proxy still alive."""
    n = len(p) if hasattr(p, '__len__') else p.get()
    return ('child-arg', n)


def child_via_queue(q):
    p = q.get()
    n = len(p) if hasattr(p, '__len__') else p.get()
    return ('child-queue', n)


def child_shm(p, idx, val):
    p.buf[idx] = val
    return ('child-shm', p.size)
