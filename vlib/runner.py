"""Case scheduling over runner subprocesses, watchdogs, verdict folding, evidence, known findings.

A check module (checks/cNN.py) provides:
  PROPERTY, LEVEL, RULE (str), ASSUMPTIONS (list[str])
  gen_cases(tier, seed) -> list[dict]        JSON-able case descriptions (each gets 'cid')
  run_case(case) -> dict                     executed in a runner subprocess; returns
        {'violations': [{'mech': str, 'msg': str, ...}], 'obs': {counter: int|...},
         'sig': str|None, 'nontrivial': bool, 'sample': any, 'fuzz': {...}, 'inconclusive': str|None}
  optional: CASE_TIMEOUT (s, default 60), PARALLEL (default 12), summarize(results)->dict,
            decide_inconclusive(obs_total)->str|None, GROUP (cases per subprocess slice)
"""
from __future__ import annotations

import importlib
import json
import os
import random
import signal
import subprocess
import sys
import tempfile
import threading
import time
import traceback

from . import PYTHON, REPO_SRC, VERIF_DIR
from . import schedfuzz

KNOWN_FILE = os.path.join(VERIF_DIR, 'known_findings.txt')
EVIDENCE_DIR = os.environ.get('VERIF_EVIDENCE_DIR') or os.path.join(VERIF_DIR, 'evidence')


# --------------------------------------------------------------------------- known findings
def load_known():
    known = {}
    fixed = []
    if not os.path.exists(KNOWN_FILE):
        return known, fixed
    for line in open(KNOWN_FILE):
        line = line.strip()
        if not line or line.startswith('#'):
            continue
        if line.startswith('known:'):
            parts = line[len('known:'):].split()
            d = dict(p.split('=', 1) for p in parts[:2] if '=' in p)
            text = ' '.join(parts[2:])
            known[(d.get('property'), d.get('key'))] = text
        elif line.startswith('fixed:'):
            fixed.append(line)
    return known, fixed


def _save_coverage():
    """Audit aid (tools/coverage_audit.sh): when the runner is started under coverage.py, flush the data before os._exit."""
    if not os.environ.get('COVERAGE_PROCESS_START'):
        return
    try:
        import coverage

        cov = coverage.Coverage.current()
        if cov is not None:
            cov.stop()
            cov.save()
    except Exception:  # noqa: BLE001
        pass


# --------------------------------------------------------------------------- child side
def _child_main(modname, cases_path, out_path, start, stop):
    """Run cases[start:stop] sequentially; append one JSON line per case to out_path."""
    sys.setswitchinterval(0.0005)
    # a shell that starts us as a background job leaves SIGINT ignored, and an ignored disposition is inherited through
    # exec by every spawned child: signal-delivery cases (C12) would then silently do nothing.  Install the normal handler.
    try:
        signal.signal(signal.SIGINT, signal.default_int_handler)
        signal.signal(signal.SIGTERM, signal.SIG_DFL)
    except Exception:
        pass
    mod = importlib.import_module(modname)
    cases = json.load(open(cases_path))
    out = open(out_path, 'a', buffering=1)
    case_timeout = getattr(mod, 'CASE_TIMEOUT', 60)
    state = {'cid': None, 't0': 0.0}

    def watchdog():
        # last line of defence: a case that neither returns nor reports a hang by itself
        from . import watch

        while True:
            time.sleep(1.0)
            cid = state['cid']
            if cid is None:
                continue
            if time.monotonic() - state['t0'] > case_timeout:
                stable, snap = watch.stable_stacks()
                if state['cid'] != cid:
                    continue
                res = {'cid': cid, 'violations': [], 'obs': {}, 'nontrivial': False}
                if stable:
                    res['violations'].append(
                        {'mech': 'hang/outer-watchdog', 'msg': f'case did not finish within {case_timeout}s and all stacks are stable',
                         'stacks': snap})
                else:
                    res['inconclusive'] = f'case exceeded {case_timeout}s but stacks were changing'
                    res['stacks'] = snap
                out.write(json.dumps(res, default=repr) + '\n')
                out.flush()
                os._exit(3)

    threading.Thread(target=watchdog, name='vf-watchdog', daemon=True).start()

    for case in cases[start:stop]:
        state['t0'] = time.monotonic()
        state['cid'] = case['cid']
        try:
            res = mod.run_case(case)
        except BaseException as e:  # noqa: BLE001
            tb_text = traceback.format_exc()
            frames = traceback.extract_tb(e.__traceback__)
            in_library = any('/mpservice/' in (f.filename or '') for f in frames) or '/mpservice/' in str(e)[:20000]
            environmental = isinstance(e, (MemoryError, KeyboardInterrupt)) or (isinstance(e, OSError) and e.errno in (12, 23, 24, 28))
            if in_library and not environmental:
                # the code under test raised something no oracle of this check anticipated: on a tree where the property
                # holds this never happens (the unchanged tree is swept over seeds), so it is reported as a violation
                res = {'violations': [{'mech': f'unexpected-exception/{type(e).__name__}',
                                       'msg': f'the code under test raised {e!r}'[:600], 'trace': tb_text[-2500:]}],
                       'obs': {}, 'nontrivial': False, 'exit_after': True}
            else:
                # harness error: surfaced as inconclusive, never as held
                res = {'violations': [], 'obs': {}, 'nontrivial': False,
                       'inconclusive': f'harness error: {e!r}', 'trace': tb_text[-3000:]}
        state['cid'] = None
        res['cid'] = case['cid']
        res['wall'] = round(time.monotonic() - state['t0'], 3)
        out.write(json.dumps(res, default=repr) + '\n')
        out.flush()
        if res.get('exit_after'):
            # the case left the process dirty (e.g. a hung library thread): start a fresh runner
            _save_coverage()
            os._exit(4)
    out.close()
    _save_coverage()
    os._exit(0)


# --------------------------------------------------------------------------- parent side
def _env():
    env = dict(os.environ)
    env['PYTHONPATH'] = os.pathsep.join([VERIF_DIR, REPO_SRC])
    env['PYTHONHASHSEED'] = '0'
    env['PYTHONDONTWRITEBYTECODE'] = '1'
    env.setdefault('PYTHONWARNINGS', 'ignore')
    return env


class _Slice:
    def __init__(self, start, stop):
        self.start, self.stop = start, stop
        self.proc = None
        self.out_path = None
        self.t_start = 0.0
        self.done_cids = set()


def run_cases(modname, cases, parallel=12, case_timeout=60, group=None, scratch=None, quiet=False,
              budget_s=None, stop_after_violations=None, is_known=lambda mech: False):
    """Execute all cases; returns list of result dicts (one per case that produced a result) and
    a list of cids that produced none (runner died)."""
    n = len(cases)
    for i, c in enumerate(cases):
        c.setdefault('cid', i)
    scratch = scratch or tempfile.mkdtemp(prefix='vf-run-')
    cases_path = os.path.join(scratch, 'cases.json')
    json.dump(cases, open(cases_path, 'w'))
    if group is None:
        group = max(1, min(50, n // (parallel * 4) or 1))
    pending = [(s, min(n, s + group)) for s in range(0, n, group)]
    pending.reverse()
    running = []
    results = {}
    lost = []
    t_begin = time.monotonic()
    env = _env()
    seq = 0
    n_viol = 0
    log_path = os.path.join(scratch, 'children.log')
    logf = open(log_path, 'ab')

    def launch(start, stop):
        nonlocal seq
        seq += 1
        sl = _Slice(start, stop)
        sl.out_path = os.path.join(scratch, f'out-{seq}.jsonl')
        open(sl.out_path, 'w').close()
        sl.proc = subprocess.Popen(
            [PYTHON, '-c',
             'import sys; from vlib.runner import _child_main; _child_main(sys.argv[1], sys.argv[2], sys.argv[3], int(sys.argv[4]), int(sys.argv[5]))',
             modname, cases_path, sl.out_path, str(start), str(stop)],
            env=env, stdout=logf, stderr=logf, stdin=subprocess.DEVNULL, start_new_session=True, cwd=scratch)
        sl.t_start = time.monotonic()
        return sl

    def harvest(sl):
        got = []
        try:
            for line in open(sl.out_path):
                line = line.strip()
                if not line:
                    continue
                try:
                    r = json.loads(line)
                except ValueError:
                    continue
                got.append(r)
        except OSError:
            pass
        return got

    def killgroup(p):
        try:
            os.killpg(p.pid, signal.SIGKILL)
        except (ProcessLookupError, PermissionError):
            pass
        try:
            p.wait(5)
        except Exception:
            pass

    try:
        while pending or running:
            while pending and len(running) < parallel:
                if budget_s is not None and time.monotonic() - t_begin > budget_s:
                    pending.clear()  # budget exhausted: remaining cases are simply not run
                    break
                s, e = pending.pop()
                running.append(launch(s, e))
            time.sleep(0.05)
            for sl in list(running):
                rc = sl.proc.poll()
                outer = (sl.stop - sl.start) * (case_timeout + 10) + 30
                if rc is None and time.monotonic() - sl.t_start > outer:
                    killgroup(sl.proc)
                    rc = -9
                if rc is None:
                    continue
                running.remove(sl)
                killgroup(sl.proc)  # sweep leftover children of the runner
                got = harvest(sl)
                for r in got:
                    results[r['cid']] = r
                    n_viol += sum(1 for v in (r.get('violations') or []) if not is_known(v.get('mech')))
                if stop_after_violations and n_viol >= stop_after_violations and pending:
                    # enough witnesses: the verdict is already "violated"; do not grind through the rest
                    pending.clear()
                done = {r['cid'] for r in got}
                cids = [cases[i]['cid'] for i in range(sl.start, sl.stop)]
                if rc != 0:
                    # find first case without result: it is lost (runner died inside it) unless rc in (3, 4)
                    rest = [i for i in range(sl.start, sl.stop) if cases[i]['cid'] not in done]
                    if rest:
                        if rc not in (3, 4):
                            lost.append(cases[rest[0]]['cid'])
                            rest = rest[1:]
                        if rest:
                            pending.append((rest[0], rest[-1] + 1))
                elif len(done) < len(cids) and not (stop_after_violations and n_viol >= stop_after_violations):
                    # the slice ended normally but some of its results are not there (e.g. the scratch directory was removed under it):
                    # those cases were not observed -> inconclusive, never silently "held"
                    lost.extend(c for c in cids if c not in done)
    finally:
        for sl in running:
            killgroup(sl.proc)
        logf.close()
    return [results[k] for k in sorted(results)], lost, scratch, log_path


# --------------------------------------------------------------------------- main driver
def main(argv=None):
    import argparse

    ap = argparse.ArgumentParser()
    ap.add_argument('prop')
    ap.add_argument('--tier', default=os.environ.get('VERIF_TIER', 'quick'), choices=['quick', 'thorough'])
    ap.add_argument('--replay', default=None)
    ap.add_argument('--seed', type=int, default=None)
    ap.add_argument('--parallel', type=int, default=None)
    ap.add_argument('--keep', action='store_true')
    ap.add_argument('--only', default=None, help='substring filter on case kind (debugging)')
    args = ap.parse_args(argv)
    seed = args.seed if args.seed is not None else int(os.environ.get('VERIF_SEED', '0') or 0)
    pid = args.prop.upper()
    modname = f'checks.{pid.lower()}'
    sys.path[:0] = [VERIF_DIR, REPO_SRC]
    mod = importlib.import_module(modname)
    t0 = time.monotonic()

    if args.replay:
        rep = json.load(open(args.replay))
        cases = [dict(rep['case'], cid=i) for i in range(int(os.environ.get('VERIF_REPLAY_TRIES', '5')))]
        tier = rep.get('tier', 'quick')
    else:
        tier = args.tier
        cases = mod.gen_cases(tier, seed)
        if args.only:
            cases = [c for c in cases if args.only in json.dumps(c)]
    cases = [dict(c) for c in cases]  # a generator may list the same dict object twice: every case gets its own id
    for i, c in enumerate(cases):
        c['cid'] = i

    parallel = args.parallel or getattr(mod, 'PARALLEL', 12)
    case_timeout = getattr(mod, 'CASE_TIMEOUT', 60)
    known, fixed = load_known()
    results, lost, scratch, log_path = run_cases(
        modname, cases, parallel=parallel, case_timeout=case_timeout, group=getattr(mod, 'GROUP', None),
        budget_s=getattr(mod, 'BUDGET', {}).get(tier),
        stop_after_violations=int(os.environ.get('VERIF_STOP_AFTER', getattr(mod, 'STOP_AFTER_VIOLATIONS', 40))),
        is_known=lambda mech: (pid, mech) in known)
    by_cid = {c['cid']: c for c in cases}
    violations = []
    known_hits = {}
    inconclusive = []
    obs_total = {}
    fuzz_total = {}
    sigs = set()
    samples = []
    nontrivial_sigs = set()
    for r in results:
        for k, v in (r.get('obs') or {}).items():
            if isinstance(v, (int, float)):
                if k.startswith('max_'):
                    obs_total[k] = max(obs_total.get(k, v), v)
                else:
                    obs_total[k] = obs_total.get(k, 0) + v
            elif isinstance(v, list):
                s = obs_total.setdefault(k, [])
                for it in v:
                    if it not in s and len(s) < 400:
                        s.append(it)
            elif isinstance(v, dict):
                d = obs_total.setdefault(k, {})
                for kk, vv in v.items():
                    if isinstance(vv, (int, float)):
                        if str(kk).startswith('max_'):
                            d[kk] = max(d.get(kk, vv), vv)
                        else:
                            d[kk] = d.get(kk, 0) + vv
        if r.get('fuzz'):
            schedfuzz.merge_stats(fuzz_total, r['fuzz'])
        if r.get('inconclusive'):
            inconclusive.append({'cid': r['cid'], 'why': r['inconclusive'], 'case': by_cid.get(r['cid']),
                                 'trace': r.get('trace')})
        if r.get('nontrivial') and r.get('sig') is not None:
            nontrivial_sigs.add(r['sig'])
        for sg in r.get('sigs') or []:
            nontrivial_sigs.add(sg)
        if r.get('sample') is not None and len(samples) < 6 and (r['cid'] % max(1, len(cases) // 6) == 0 or len(samples) < 2):
            samples.append(r['sample'])
        for v in r.get('violations') or []:
            key = (pid, v.get('mech'))
            if key in known:
                known_hits.setdefault(key, []).append(r['cid'])
            else:
                violations.append((r['cid'], v))
    for cid in lost:
        inconclusive.append({'cid': cid, 'why': 'runner process died without reporting', 'case': by_cid.get(cid)})

    not_run = len(cases) - len(results) - len(lost)
    wall = time.monotonic() - t0
    os.makedirs(os.path.join(EVIDENCE_DIR, 'replay'), exist_ok=True)
    rc = 0
    replay_paths = []
    seen_mech = {}
    for cid, v in violations:
        m = v.get('mech')
        seen_mech[m] = seen_mech.get(m, 0) + 1
        if seen_mech[m] > 3:
            continue
        path = os.path.join(EVIDENCE_DIR, 'replay', f'{pid}-{seed}-{cid}.json')
        json.dump({'property': pid, 'tier': tier, 'seed': seed, 'case': by_cid.get(cid), 'violation': v},
                  open(path, 'w'), indent=1, default=repr)
        replay_paths.append(path)
        print(f'VIOLATION property={pid} replay={path}')
        print(f'  mechanism={m} :: {str(v.get("msg"))[:400]}')
        rc = 1
    for (p, k), cids in known_hits.items():
        print(f'KNOWN-FINDING: property={p} key={k} {known[(p, k)]} (seen in {len(cids)} cases)')

    extra = {}
    if hasattr(mod, 'summarize'):
        try:
            extra = mod.summarize(results, cases) or {}
        except Exception as e:  # noqa: BLE001
            extra = {'summarize_error': repr(e)}
    why_inconclusive = None
    if hasattr(mod, 'decide_inconclusive'):
        why_inconclusive = mod.decide_inconclusive(obs_total, results, cases)
    if not results:
        why_inconclusive = 'no case produced a result'
    if inconclusive and rc == 0:
        frac = len(inconclusive) / max(1, len(cases))
        if frac > getattr(mod, 'MAX_INCONCLUSIVE_FRACTION', 0.02) or any('harness error' in i['why'] for i in inconclusive):
            why_inconclusive = why_inconclusive or f'{len(inconclusive)} inconclusive cases (first: {inconclusive[0]["why"]})'

    if not samples and results:
        samples = [r.get('sample') or by_cid.get(r['cid']) for r in results[:3]]
    n_eval = len(results)
    ekeys = getattr(mod, 'EVALUATIONS_KEYS', None)
    if ekeys:
        # a case may hold many executions (e.g. a whole DFS tree, 500 scripts): count the executions, measured by the check itself
        n_eval = int(sum(obs_total.get(k, 0) for k in ekeys)) or len(results)
    coverage = {
        'evaluations': n_eval,
        'case_groups_run': len(results),
        'distinct_nontrivial': len(nontrivial_sigs),
        'rule': getattr(mod, 'RULE', ''),
        'samples': samples,
        'cases_generated': len(cases),
        'cases_not_run_budget': not_run,
        'events_observed': obs_total,
        'fuzz': schedfuzz.finish_stats(fuzz_total) if fuzz_total else {},
        'inconclusive_cases': len(inconclusive),
        'inconclusive_detail': inconclusive[:5],
        'known_findings_hit': {f'{p}:{k}': len(c) for (p, k), c in known_hits.items()},
        'violation_mechanisms': seen_mech,
        'verdict': 'violated' if rc == 1 else ('inconclusive' if why_inconclusive else 'held_on_observed'),
    }
    if getattr(mod, 'EXHAUSTIVE', {}).get(tier):
        coverage['exhaustive'] = True
    coverage.update(extra)
    ev = {
        'property_id': pid,
        'tier': tier,
        'seed': seed,
        'level': getattr(mod, 'LEVEL', 'exploration'),
        'coverage': coverage,
        'assumptions': getattr(mod, 'ASSUMPTIONS', []),
        'wall_s': round(wall, 2),
        'violations': len(violations),
    }
    if not args.replay:
        json.dump(ev, open(os.path.join(EVIDENCE_DIR, f'{pid}.json'), 'w'), indent=1, default=repr)
    print(f'[{pid}] tier={tier} seed={seed} cases={len(results)}/{len(cases)} distinct_nontrivial={len(nontrivial_sigs)} '
          f'violations={len(violations)} known={sum(len(c) for c in known_hits.values())} inconclusive={len(inconclusive)} wall={wall:.1f}s')
    brief = {k: v for k, v in obs_total.items() if isinstance(v, (int, float))}
    print(f'[{pid}] observed: {json.dumps(brief)[:1500]}')
    if fuzz_total:
        fs = schedfuzz.finish_stats(dict(fuzz_total, _sigs=set(fuzz_total.get("_sigs", ()))))
        print(f'[{pid}] fuzz: line_events={fs.get("line_events")} injections={fs.get("injections")} '
              f'interleaving_signatures={fs.get("interleaving_signatures")} missing_sites={fs.get("missing_sites")}')
    if not args.keep:
        import shutil

        if rc == 0 and not why_inconclusive:
            shutil.rmtree(scratch, ignore_errors=True)
        else:
            print(f'[{pid}] scratch kept at {scratch} (children log: {log_path})')
    if rc == 1:
        return 1
    if why_inconclusive:
        print(f'INCONCLUSIVE property={pid}: {why_inconclusive}')
        for i in inconclusive[:3]:
            print('   ', json.dumps(i, default=repr)[:1200])
        return 2
    return 0


if __name__ == '__main__':
    try:
        rc = main()
    except SystemExit:
        raise
    except BaseException:  # noqa: BLE001  a crash of the harness is never a verdict on the property
        traceback.print_exc()
        print('INCONCLUSIVE: harness crashed')
        rc = 2
    sys.exit(rc)
