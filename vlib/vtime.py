"""Virtual time: a clock object bound into the module under test and a scripted queue whose
arrivals carry virtual timestamps.  The *real* batching functions run single-threaded against
them, so timing clauses are decided exactly and independently of machine load (DESIGN 3.6)."""
from __future__ import annotations

import queue


class Deadlock(Exception):
    """An untimed get with nothing scheduled to arrive: the real code would wait forever."""


class VClock:
    def __init__(self, t0=1000.0):
        self.now = t0

    # the names the code under test may use
    def perf_counter(self):
        return self.now

    def monotonic(self):
        return self.now

    def time(self):
        return self.now

    def sleep(self, d):
        self.now += max(0.0, d)

    def __call__(self):
        return self.now


class ScriptedQueue:
    """arrivals: list of (virtual arrival time, item), nondecreasing in time.

    get(timeout=None): next item, advancing the clock to its arrival if that is in the future.
    get(timeout=T): next item if it arrives by now+T (clock -> max(now, arrival)); otherwise the
    clock advances by T and queue.Empty is raised.  Every call is logged."""

    def __init__(self, clock, arrivals, empty_exc=queue.Empty):
        self.clock = clock
        self.arrivals = list(arrivals)
        self.i = 0
        self.log = []  # (kind, timeout, t_before, t_after, index or None)
        self.putback = []
        self.empty_exc = empty_exc

    def _pending(self):
        return self.i < len(self.arrivals)

    def get(self, block=True, timeout=None):
        c = self.clock
        t_before = c.now
        if self.putback:
            item = self.putback.pop(0)
            self.log.append(('get', timeout, t_before, c.now, ('putback', item)))
            return item
        if not block:
            timeout = 0
        if self._pending():
            arr, item = self.arrivals[self.i]
            if timeout is None or arr <= c.now + timeout:
                c.now = max(c.now, arr)
                idx = self.i
                self.i += 1
                self.log.append(('get', timeout, t_before, c.now, idx))
                return item
        if timeout is None:
            self.log.append(('get-deadlock', None, t_before, c.now, None))
            raise Deadlock('untimed get with nothing scheduled')
        c.now += max(0.0, timeout)
        self.log.append(('empty', timeout, t_before, c.now, None))
        raise self.empty_exc

    def get_nowait(self):
        return self.get(block=False)

    def put(self, item, *a, **k):
        # the code under test may put an end marker back
        self.putback.append(item)

    def empty(self):
        if self.putback:
            return False
        return not (self._pending() and self.arrivals[self.i][0] <= self.clock.now)

    def qsize(self):
        n = len(self.putback)
        j = self.i
        while j < len(self.arrivals) and self.arrivals[j][0] <= self.clock.now:
            n += 1
            j += 1
        return n


def bind_clock(module, clock):
    """Bind the virtual clock into `module` under every name through which it reads time (`time` module object,
    `perf_counter`, `monotonic`).  Returns (restore, n_bound).  If the module reads no clock at all (n_bound == 0) the
    scripted queue alone carries virtual time, which is still exact for code that only uses relative timeouts."""
    import types

    saved = []
    for name in ('perf_counter', 'monotonic'):
        if callable(getattr(module, name, None)):
            saved.append((name, getattr(module, name)))
            setattr(module, name, getattr(clock, name))
    t = getattr(module, 'time', None)
    if isinstance(t, (types.ModuleType, VClock)):
        saved.append(('time', t))
        module.time = clock

    def restore():
        for name, old in saved:
            setattr(module, name, old)

    return restore, len(saved)
