"""Importable (spawn-safe) functions, exception classes and worker classes used as workloads.
Child processes import this module by name, so everything here must be top-level."""
from __future__ import annotations

import asyncio
import os
import time


class Boom(Exception):
    """The failure a worker function injects; carries the token of the element."""


class Boom2(Exception):
    """Two-argument constructor (kills naive `type(e)(msg)` reconstruction)."""

    def __init__(self, a, b):
        super().__init__(a, b)
        self.a, self.b = a, b


class Reject(Exception):
    """Raised by preprocessors."""


def norm_exc(e):
    """Exceptions are compared by (type name, args), recursively."""
    if isinstance(e, BaseException):
        return ('EXC', type(e).__name__, tuple(norm_exc(a) for a in e.args))
    if isinstance(e, (list, tuple)):
        return type(e)(norm_exc(a) for a in e)
    return e


def proc_work(x):
    """x = (token, duration_s, fail)"""
    token, dur, fail = x
    if dur:
        time.sleep(dur)
    if fail:
        raise Boom(token)
    return ('f', token, os.getpid() != 0)


def proc_work_kw(x, *, tag='t'):
    token, dur, fail = x
    if dur:
        time.sleep(dur)
    if fail:
        raise Boom(token)
    return (tag, token)


async def async_work(x):
    token, dur, fail = x
    if dur:
        await asyncio.sleep(dur)
    else:
        await asyncio.sleep(0)
    if fail:
        raise Boom(token)
    return ('f', token, True)


def ident(x):
    return x
