"""Importable (spawn-safe) functions, exception classes and worker classes used as workloads.
Child processes import this module by name, so everything here must be top-level."""
from __future__ import annotations

import asyncio
import os
import time


class Boom(Exception):
    """The failure a worker function injects; carries the token of the element."""


class Boom2(Exception):
    """Two-argument constructor (kills naive `type(e)(msg)` reconstruction)."""

    def __init__(self, a, b):
        super().__init__(a, b)
        self.a, self.b = a, b


class Reject(Exception):
    """Raised by preprocessors."""


def norm_exc(e):
    """Exceptions are compared by (type name, args), recursively."""
    if isinstance(e, BaseException):
        return ('EXC', type(e).__name__, tuple(norm_exc(a) for a in e.args))
    if isinstance(e, (list, tuple)):
        return type(e)(norm_exc(a) for a in e)
    return e


def _fail_with(fail, token):
    # fail: True = the harness's own Boom; a str = the class of that name (vlib.targets.handler_exc_class)
    if isinstance(fail, str):
        raise handler_exc_class(fail)(token)
    raise Boom(token)


def proc_work(x):
    """x = (token, duration_s, fail)"""
    token, dur, fail = x
    if dur:
        time.sleep(dur)
    if fail:
        _fail_with(fail, token)
    return ('f', token, os.getpid() != 0)


def any_work(x):
    """Accepts any element value."""
    return ('w', type(x).__name__, repr(x)[:40])


async def any_work_async(x):
    await asyncio.sleep(0)
    return ('w', type(x).__name__, repr(x)[:40])


def kw_work(x, **kw):
    """A worker function whose keyword arguments happen to be named like things the library uses internally."""
    return ('kw', x, tuple(sorted(kw.items())))


async def kw_work_async(x, **kw):
    await asyncio.sleep(0)
    return ('kw', x, tuple(sorted(kw.items())))


def proc_work_kw(x, *, tag='t'):
    token, dur, fail = x
    if dur:
        time.sleep(dur)
    if fail:
        raise Boom(token)
    return (tag, token)


async def async_work(x):
    token, dur, fail = x
    if dur:
        await asyncio.sleep(dur)
    else:
        await asyncio.sleep(0)
    if fail:
        _fail_with(fail, token)
    return ('f', token, True)


class Unpicklable:
    """A value that travels fine between threads and fails, deterministically, at the first process boundary -- with the error class a
    pickling attempt may end in: PicklingError (lambdas, local classes), RuntimeError / ValueError (an object whose __reduce__ /
    __getstate__ refuses: connections, handles), RecursionError (deep nesting)."""

    def __init__(self, kind='pickling'):
        self.kind = kind

    def __reduce__(self):
        import pickle

        cls = {'pickling': pickle.PicklingError, 'runtime': RuntimeError, 'recursion': RecursionError, 'value': ValueError, 'notimpl': NotImplementedError}[self.kind]
        raise cls('vf-unpicklable')

    def __repr__(self):
        return f'Unpicklable({self.kind!r})'


UNPICKLABLE = Unpicklable()


def _refuse_to_load(kind):
    raise {'value': ValueError, 'type': TypeError, 'runtime': RuntimeError, 'import': ImportError}[kind]('vf-unloadable')


class Unloadable:
    """Pickles fine; cannot be rebuilt by the receiver (a constructor that validates, a resource that exists only in the sender ...)."""

    def __init__(self, kind='value'):
        self.kind = kind

    def __reduce__(self):
        return (_refuse_to_load, (self.kind,))

    def __repr__(self):
        return f'Unloadable({self.kind!r})'


def ident(x):
    return x


# ----------------------------------------------------------------------------- C12 / C20 targets
class ReduceExc(Exception):
    """Custom __init__ + __reduce__: constructor takes a keyword-ish payload."""

    def __init__(self, code, detail=None):
        super().__init__(code)
        self.code = code
        self.detail = detail

    def __reduce__(self):
        return (ReduceExc, (self.code, self.detail))


class KwOnlyExc(Exception):
    def __init__(self, *, reason):
        super().__init__(reason)
        self.reason = reason

    def __reduce__(self):
        return (_make_kwonly, (self.reason,))


def _make_kwonly(reason):
    return KwOnlyExc(reason=reason)


class CancelLike(BaseException):
    """What frameworks use for cancellation / shutdown: an exception class outside the Exception hierarchy."""


class EqAll:
    """Compares equal to everything (like unittest.mock.ANY)."""

    def __init__(self, n):
        self.n = n

    def __eq__(self, other):
        return True

    def __ne__(self, other):
        return False

    __hash__ = None

    def __repr__(self):
        return f'EqAll({self.n})'


class _Ambiguous:
    def __bool__(self):
        raise ValueError('The truth value of an array with more than one element is ambiguous')


class ArrayLike:
    """== is element-wise, as for numpy arrays / pandas objects: its result has no truth value."""

    def __init__(self, n):
        self.n = n

    def __eq__(self, other):
        return _Ambiguous()

    def __ne__(self, other):
        return _Ambiguous()

    __hash__ = None

    def __repr__(self):
        return f'ArrayLike({self.n})'


class ErrorList(Exception):
    """A collection-like exception (the errors gathered by a batch job): len() and truth value follow its entries."""

    def __init__(self, *errors):
        super().__init__(*errors)

    def __len__(self):
        return len(self.args)


class StatusError(Exception):
    """Validating constructor: a non-numeric argument raises ValueError (not TypeError)."""

    def __init__(self, status):
        self.status = int(status)
        super().__init__(status)


class CodeError(Exception):
    """Constructor looks its argument up: an unknown code raises KeyError."""

    CODES = {'E1': 'first', 'E2': 'second'}

    def __init__(self, code):
        self.text = self.CODES[code]
        super().__init__(code)


class RespError(Exception):
    """Constructor reads attributes of its argument: a str raises AttributeError."""

    def __init__(self, resp):
        self.resp = resp
        super().__init__(resp.status, resp.reason)

    def __reduce__(self):
        return (RespError, (self.resp,))


class TwoArgInit(Exception):
    """Pickles (by class + args) but cannot be rebuilt: the constructor needs two arguments, args holds one."""

    def __init__(self, a, b):
        super().__init__(f'{a}-{b}')


class Resp:
    def __init__(self, status, reason):
        self.status, self.reason = status, reason


def _make_resp_error(status, reason):
    return RespError(Resp(status, reason))


EXC_TABLE = {
    'ValueError': ValueError, 'KeyError': KeyError, 'Boom': Boom, 'Boom2': Boom2, 'OSError': OSError, 'ReduceExc': ReduceExc,
    'KwOnlyExc': KwOnlyExc, 'AssertionError': AssertionError, 'KeyboardInterrupt': KeyboardInterrupt, 'ZeroDivisionError': ZeroDivisionError,
    'UnicodeDecodeError': UnicodeDecodeError, 'FileNotFoundError': FileNotFoundError, 'RuntimeError': RuntimeError, 'StopIteration': StopIteration,
    'Reject': Reject, 'LookupError': LookupError, 'TimeoutError': TimeoutError, 'ConnectionResetError': ConnectionResetError,
    'StatusError': StatusError, 'CodeError': CodeError, 'RespError': _make_resp_error, 'TwoArgInit': TwoArgInit, 'ErrorList': ErrorList,
}


def make_exc(name, args, kwargs=None):
    cls = EXC_TABLE[name]
    if kwargs:
        return cls(**kwargs)
    return cls(*args)


def c12_target(spec, ready=None):
    """spec: ['return', v] | ['raise', clsname, args, kwargs] | ['exit', code] | ['sleep', seconds] | ['linger', v, seconds]"""
    import sys
    import threading

    if ready is not None and spec[0] != 'linger':
        ready.set()
    kind = spec[0]
    if kind == 'return':
        v = spec[1]
        if isinstance(v, list) and len(v) == 2 and v[0] == '__bytes__':
            return b'z' * v[1]
        return v
    if kind == 'raise':
        raise make_exc(spec[1], spec[2], spec[3] if len(spec) > 3 else None)  # SITE-MARK-C12 raise
    if kind == 'exit':
        sys.exit(spec[1])
    if kind == 'sleep':
        time.sleep(spec[1])
        return 'slept'
    if kind == 'return-unpicklable':
        return threading.Lock()
    if kind == 'log-loop':
        # log without pause until killed: the pipe to the parent is full most of the time
        import logging

        lg = logging.getLogger('vf.c12.loop')
        pad = 'p' * spec[1]
        t0 = time.monotonic()
        i = 0
        while time.monotonic() - t0 < 30:
            lg.info('rec %d %s', i, pad)
            i += 1
        return 'logged'
    if kind == 'return-unrebuildable':
        return [1, TwoArgInit(1, 2)]  # pickles here, cannot be unpickled by the receiver (its constructor needs two arguments)
    if kind == 'os-exit':
        import os as _os

        _os._exit(spec[1])
    if kind == 'linger':
        def stay():
            time.sleep(0.15)
            if ready is not None:
                ready.set()
            time.sleep(spec[2])

        threading.Thread(target=stay, name='linger').start()
        return spec[1]
    raise ValueError(kind)


def c20_target(spec):
    """Emit numbered log records, then end per spec['ending'].
    spec: {'n': int, 'size': int, 'ending': 'return'|'raise'|'exit', 'levels': bool, 'burst_at_end': bool, 'threads': int}"""
    import logging
    import sys
    import threading

    lg = logging.getLogger('vf.child')
    n, size = spec['n'], spec['size']
    pad = 'p' * max(0, size - 12)
    levels = [logging.DEBUG, logging.INFO, logging.WARNING, logging.ERROR]

    def emit(lo, hi, th):
        for i in range(lo, hi):
            lvl = levels[i % 4] if spec.get('levels') else logging.WARNING
            if spec.get('rich') and i % 3 == 1:
                # what applications attach to records: context objects that cannot be pickled, exception info
                if i % 2:
                    lg.log(lvl, 'rec %d %d %s', th, i, pad, extra={'conn': threading.Lock(), 'request_no': i})
                else:
                    try:
                        raise KeyError(i)
                    except KeyError:
                        lg.log(lvl, 'rec %d %d %s', th, i, pad, exc_info=True, extra={'handler': lambda: None})
                continue
            lg.log(lvl, 'rec %d %d %s', th, i, pad)

    if spec.get('silence_first'):
        # a child that says nothing for a long while (start-up work, a long computation) before it logs
        if spec.get('hello_first'):
            lg.warning('rec %d %d %s', 9, 0, 'hello')
        time.sleep(spec['silence_first'])
    nthreads = spec.get('threads', 1)
    if nthreads > 1:
        per = n // nthreads
        ths = [threading.Thread(target=emit, args=(0, per, t)) for t in range(nthreads)]
        for t in ths:
            t.start()
        for t in ths:
            t.join()
    else:
        emit(0, n, 0)
    if spec.get('pause_before_end'):
        time.sleep(spec['pause_before_end'])
    ending = spec['ending']
    if ending == 'raise':
        raise Boom('c20', n)
    if ending == 'exit':
        sys.exit(3)
    return ('done', n)


def c20_parent_main(argv=None):
    """A whole parent program, run as `python -m vlib.targets c20-parent <json>`: installs a (slow) root handler that appends every record
    to a file, starts one logging child through mpservice's Process, waits for it with the given accessor and *ends at once*."""
    import json
    import logging
    import sys

    cfg = json.loads((argv or sys.argv)[2])
    out = open(cfg['out'], 'a', buffering=1)

    class H(logging.Handler):
        def emit(self, record):
            if cfg.get('handler_delay'):
                time.sleep(cfg['handler_delay'])
            out.write(f'{record.name} {record.getMessage()[:40]}\n')
            out.flush()

    root = logging.getLogger()
    root.addHandler(H())
    root.setLevel(logging.DEBUG)
    import mpservice.multiprocessing as mm

    p = mm.Process(target=c20_target, args=(cfg['spec'],), daemon=cfg.get('daemon', False))
    p.start()
    try:
        if cfg['accessor'] == 'join':
            p.join()
        elif cfg['accessor'] == 'result':
            p.result()
        elif cfg['accessor'] == 'result-timeout':
            p.result(timeout=100)
        elif cfg['accessor'] == 'exception':
            p.exception()
        elif cfg['accessor'] == 'wait':
            import mpservice.multiprocessing as mm2

            mm2.wait([p])
            p.join()
    except BaseException as e:  # noqa: BLE001
        out.write(f'OUTCOME exc {type(e).__name__}\n')
    else:
        out.write('OUTCOME ok\n')
    out.flush()
    # the program ends here


# ----------------------------------------------------------------------------- C18 targets
def digest(obj):
    import hashlib
    import pickle

    if isinstance(obj, (bytes, bytearray)):
        b = bytes(obj)
    else:
        b = pickle.dumps(obj, protocol=4)
    return (type(obj).__name__, len(b), hashlib.sha256(b).hexdigest()[:16])


HANDLER_EXCS = ['KeyError', 'TimeoutError', 'MpTimeout', 'queue.Empty', 'ConnectionResetError', 'EOFError', 'ValueError', 'Boom', 'asyncio.QueueEmpty',
                'asyncio.InvalidStateError', 'BrokenPipeError', 'LookupError']


def handler_exc_class(name):
    """Exception classes a user's handler / worker may raise -- among them the ones the library itself uses for control flow
    (time-outs of its polling loops, empty queues, broken connections)."""
    import asyncio
    import queue

    if name is True:
        return KeyError
    if name == 'MpTimeout':
        from mpservice._common import TimeoutError as MpTimeout

        return MpTimeout
    if name == 'Boom':
        return Boom
    if name == 'TwoArgInit':
        return TwoArgInit
    if name.startswith('queue.'):
        return getattr(queue, name.split('.')[1])
    if name.startswith('asyncio.'):
        return getattr(asyncio, name.split('.')[1])
    return getattr(__import__('builtins'), name)


def c18_server(path, ready_path=None, tcp_port=None, backlog=None):
    """Socket server process.  Routes:
    /tagged  data = (tag, latency_s, fail, payload) -> (tag, digest(payload)) after the latency, or <exception class named by fail>(tag)
    /raw     data = payload -> digest(payload)
    /echo    data = payload -> payload
    /noarg   (no data)      -> 'noarg-ok'"""
    import asyncio

    from mpservice.socket import SocketApplication, make_server

    async def tagged(data):
        tag, latency, fail, payload = data
        if latency:
            await asyncio.sleep(latency)
        else:
            await asyncio.sleep(0)
        if fail:
            raise handler_exc_class(fail)(tag)  # SITE-MARK-C18 handler
        return (tag, digest(payload))

    async def raw(data):
        await asyncio.sleep(0)
        return digest(data)

    async def echo(data):
        return data

    async def noarg():
        return 'noarg-ok'

    async def unpicklable(data):
        import threading

        return (data, threading.Lock())  # a response that cannot be sent

    async def unloadable(data):
        return (data, Unloadable('value'))  # a response that pickles here and cannot be rebuilt by the client

    app = SocketApplication()
    app.add_route('/unloadable', unloadable)
    app.add_route('/unpicklable', unpicklable)
    app.add_route('/tagged', tagged)
    app.add_route('/raw', raw)
    app.add_route('/echo', echo)
    app.add_route('/noarg', noarg)
    kw = {'backlog': backlog} if backlog else {}
    if tcp_port:
        server = make_server(app, host='127.0.0.1', port=tcp_port, **kw)  # the TCP transport instead of the unix socket
    else:
        server = make_server(app, path=path, **kw)
    asyncio.run(server.serve())


def c18_pipe_peer(path, role, script):
    """Named-pipe peer in its own process. script: list of ['send', spec] | ['recv'] ; returns digests of what it received."""
    import faulthandler

    from mpservice.pipe import Client, Server

    # observability for the parent's hang verdict: if this peer is still running after 40 s, its stacks go to a file next to the pipe
    dump = open(os.path.join(os.path.dirname(os.path.dirname(path)), f'{role}.stacks'), 'w')  # not in the pipe's own directory: the library creates that
    faulthandler.dump_traceback_later(40, file=dump, exit=False)
    dump.write(f'{role} pid {os.getpid()} started\n')
    dump.flush()
    late_creation = script and script[0][0] == 'create-after'
    no_barrier = late_creation or (script and script[0][0] == 'no-barrier')
    if late_creation:
        time.sleep(script[0][1])  # this side comes into existence late: the other one is already waiting in its first recv
    if script and script[0][0] in ('create-after', 'no-barrier'):
        script = script[1:]
    p = (Server if role == 'server' else Client)(path)
    # both objects exist before either side acts (the module asks for one object in each process; what is sent to a side that has not
    # been created at all cannot be kept by anybody)
    base = os.path.dirname(os.path.dirname(path))
    open(os.path.join(base, f'{role}.constructed'), 'w').close()
    other = os.path.join(base, ('client' if role == 'server' else 'server') + '.constructed')
    t_end = time.monotonic() + 30
    while not no_barrier and not os.path.exists(other) and time.monotonic() < t_end:
        time.sleep(0.002)
    dump.write(f'{role}: both sides constructed\n')
    dump.flush()
    got = []
    for step in script:
        if step[0] == 'send':
            p.send(make_payload(step[1]))
        elif step[0] == 'sleep':
            time.sleep(step[1])
        else:
            got.append(digest(p.recv()))
        dump.write(f'{role} step {len(got)} done: {step[0]}\n')
        dump.flush()
    faulthandler.cancel_dump_traceback_later()
    dump.write(f'{role} script finished\n')
    dump.close()
    return got


class MyStr(str):
    """A str subclass (as StrEnum members, numpy.str_, user tag classes are)."""


class MyBytes(bytes):
    pass


def make_payload(spec):
    """JSON-able payload specs -> objects."""
    kind = spec[0]
    if kind == 'bytes':
        n, seed = spec[1], spec[2]
        import random

        r = random.Random(seed)
        if n <= 64:
            return bytes(r.randrange(256) for _ in range(n))
        block = bytes(r.randrange(256) for _ in range(61))
        return (block * (n // 61 + 1))[:n]
    if kind == 'literal':
        return {'nl': b'\n', 'header': b'123 45 pickle\n', 'header2': b'7 3 none\nabc', 'empty': b'', 'zero': 0, 'false': False, 'estr': '', 'elist': [],
                'edict': {}, 'fzero': 0.0, 'etuple': (), 'str-nl': 'line1\nline2\n', 'unicode': 'héllo ✓ 日本',
                # a file name that is not valid UTF-8, decoded with surrogateescape; instances of str / bytes subclasses
                'surrogate': 'name-\udcff\udc80.txt', 'strsub': MyStr('tagged text'), 'bytessub': MyBytes(b'tagged bytes'), 'true': True, 'none-in-list': [None]}[spec[1]]
    if kind == 'nested':
        n = spec[1]
        return {'k': [list(range(n)), {'a': ('t', n), 'b': [b'x' * n, None, 1.5]}], 'n': n, 's': 's' * n}
    if kind == 'str':
        return 'é' * spec[1]
    raise ValueError(kind)


if __name__ == '__main__':
    import sys as _sys

    if len(_sys.argv) > 1 and _sys.argv[1] == 'c20-parent':
        c20_parent_main()
